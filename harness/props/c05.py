"""C05 - a definition is accepted iff it obeys the static rules: generator, renderer, implementation runner, emitter.

A case is an abstract definition (identity from the file name, statements per section, dependencies) in the JSON form
described below.  `render` turns it into DSDL text (one statement per line), `run_impl` writes it with its dependencies
into a scratch namespace and reads it with pydsdl; `emit` writes the same abstract form as a Gallina term for
Check/C05.v, which evaluates `accept` and compares accept/reject.

  case  = {"id": {"root", "ns": [..], "short", "ver": [M, m], "port": int|None}, "allow": bool,
           "sections": [[stmt..], ..], "deps": [dep..], "ending": "nl"|"none"|"comment", "api": "namespace"|"files",
           "tags": [category..]}
  stmt  = ["field", tx, name] | ["pad", w] | ["const", tx, name, val] | ["dir", name, val|None]
  tx    = ["s", sx] | ["fix", sx, n] | ["vari", sx, n] | ["vare", sx, n]
  sx    = ["bool"] | ["byte"] | ["utf8"] | ["uint", w, cast, explicit] | ["int", w, cast, explicit]
          | ["float", w, cast, explicit] | ["void", w] | ["ref", [comp..], M, m]         cast: "sat"|"trunc"
  val   = ["bool", b] | ["rat", n, d] | ["str", text] | ["set"]
  dep   = {"root", "ns", "short", "ver", "deprecated", "service", "union", "fields": [tx..], "extent": int|None,
           "lookup": bool}     (lookup: lives in another root namespace passed as a lookup directory)
  case["referrers"] (optional) = "none" | "before" | "after" | "both": further definitions of the same root namespace
           that REFER TO the definition under test and are processed before / after it (they sort before / after it);
           they are valid whenever the definition under test is a valid message type, so the verdict on the whole
           set must be the verdict on the definition under test, whatever the processing order.
           api "files-referrer": read_files is given only a referrer, the definition under test is reached as its dependency.
"""
import copy
import gallina as G

ID = "C05"
PROPS_FILE = "Props/C05.v"
COQ_IMPORTS = "From PV Require Import Util.ListSet BLS.Model Layout.Types Rules.Names Rules.Defn Rules.Accept Check.C05."
CASE_TYPE = "C05.case"
CHECK_FN = "C05.check_case"
SHARD = 150

# ----------------------------------------------------------------------------------------------------------------
# renderer: abstract definition -> DSDL text and file path (part of the tested path; kept literal)


def render_sx(s):
    k = s[0]
    if k in ("bool", "byte", "utf8"):
        return k
    if k in ("uint", "int", "float"):
        _, w, cast, explicit = s
        prefix = "truncated " if cast == "trunc" else ("saturated " if explicit else "")
        return "%s%s%d" % (prefix, k, w)
    if k == "void":
        return "void%d" % s[1]
    if k == "ref":
        return "%s.%d.%d" % (".".join(s[1]), s[2], s[3])
    raise ValueError(k)


def render_tx(t):
    k = t[0]
    if k == "s":
        return render_sx(t[1])
    if k == "fix":
        return "%s[%d]" % (render_sx(t[1]), t[2])
    if k == "vari":
        return "%s[<=%d]" % (render_sx(t[1]), t[2])
    if k == "vare":
        return "%s[<%d]" % (render_sx(t[1]), t[2])
    raise ValueError(k)


def render_val(v):
    k = v[0]
    if k == "bool":
        return "true" if v[1] else "false"
    if k == "rat":
        return "%d" % v[1] if v[2] == 1 else "%d/%d" % (v[1], v[2])
    if k == "str":
        assert "'" not in v[1] and "\\" not in v[1] and "\n" not in v[1]
        return "'%s'" % v[1]
    if k == "set":
        return "{1, 2}"
    raise ValueError(k)


def render_stmt(s):
    k = s[0]
    if k == "field":
        return "%s %s" % (render_tx(s[1]), s[2])
    if k == "pad":
        return "void%d" % s[1]
    if k == "const":
        return "%s %s = %s" % (render_tx(s[1]), s[2], render_val(s[3]))
    if k == "dir":
        return "@%s" % s[1] if s[2] is None else "@%s %s" % (s[1], render_val(s[2]))
    raise ValueError(k)


def render_sections(sections, ending, decor="plain"):
    """decor: plain | comments (a comment line before and a trailing comment on every statement) | blank (an empty
    line after every statement) | crlf (Windows line ends) - none of them changes the meaning of the definition"""
    lines = []
    for j, sec in enumerate(sections):
        if j:
            lines.append("---")
        for k, st in enumerate(sec):
            text = render_stmt(st)
            if decor == "comments":
                lines.append("# about statement %d" % k)
                text += "  # trailing %d" % k
            lines.append(text)
            if decor == "blank":
                lines.append("")
    eol = "\r\n" if decor == "crlf" else "\n"
    text = eol.join(lines)
    if ending == "nl":
        text += eol
    elif ending == "comment":
        text += eol + "# the end"
    return text


def rel_path(ident):
    name = "%s.%d.%d.dsdl" % (ident["short"], ident["ver"][0], ident["ver"][1])
    if ident.get("port") is not None:
        name = "%d.%s" % (ident["port"], name)
    return "/".join([ident["root"]] + list(ident["ns"]) + [name])


REFERRER_NAMES = {"before": ["A0Ref"], "after": ["zz9Ref"], "both": ["A0Ref", "zz9Ref"], "none": []}


def referrer_files(case):
    """(relative path, text) of the definitions that refer to the definition under test; always deprecated (a deprecated
    type may use deprecated and non-deprecated types alike), sealed, version 1.0, directly in the root namespace"""
    i = case["id"]
    ref = "%s.%d.%d" % (".".join([i["root"]] + list(i["ns"]) + [i["short"]]), i["ver"][0], i["ver"][1])
    out = []
    for k, name in enumerate(REFERRER_NAMES[case.get("referrers", "none")]):
        form = ["%s item", "%s[<=4] items", "%s[2] pair"][(k + len(i["short"])) % 3] % ref
        out.append(("%s/%s.1.0.dsdl" % (i["root"], name), "@deprecated\n%s\n@sealed\n" % form))
    return out


SIBLING_NAMES = {"before": ["A0Sib"], "after": ["zz9Sib"], "both": ["A0Sib", "zz9Sib"], "none": []}


def sibling_files(case):
    """(relative path, text) of valid definitions of the same root namespace that use the DEPENDENCIES of the definition
    under test (the same dependency is then referred to by several definitions within one read, in both processing
    orders).  A sibling is deprecated whenever it uses a deprecated dependency, so it is valid on its own account whatever
    the definition under test looks like; dependencies are used directly as field types and through arrays."""
    deps = [d for d in case["deps"] if not d["service"]]
    out = []
    if not deps:
        return out
    for k, name in enumerate(SIBLING_NAMES[case.get("siblings", "none")]):
        lines = []
        if any(d["deprecated"] for d in deps) or (k + len(deps)) % 2 == 0:
            lines.append("@deprecated")
        for j, d in enumerate(deps):
            ref = "%s.%d.%d" % (".".join([d["root"]] + list(d["ns"]) + [d["short"]]), d["ver"][0], d["ver"][1])
            lines.append("%s direct%d" % (ref, j))
            if (j + k) % 2 == 0:
                lines.append(["%s[<=3] many%d", "%s[2] pair%d"][(j + k) % 4 // 2] % (ref, j))
        lines.append("@sealed" if k == 0 else "@extent 8 * 1024 * 1024 * 1024")
        out.append(("%s/%s.1.0.dsdl" % (case["id"]["root"], name), "\n".join(lines) + "\n"))
    return out


def dep_sections(d):
    sec = []
    if d["deprecated"]:
        sec.append(["dir", "deprecated", None])
    if d["union"]:
        sec.append(["dir", "union", None])
    for j, t in enumerate(d["fields"]):
        sec.append(["field", t, "f%d" % j])
    sec.append(["dir", "sealed", None] if d["extent"] is None else ["dir", "extent", ["rat", d["extent"], 1]])
    return [sec, [["dir", "sealed", None]]] if d["service"] else [sec]


# ----------------------------------------------------------------------------------------------------------------
# a small layout calculator, used ONLY to choose interesting extents and to give dependencies a valid extent


def _pad(x, a):
    return (x + a - 1) // a * a


def sx_layout(s, deps_by_ref):
    """(max bit length, alignment) or None when unknown"""
    k = s[0]
    if k == "bool":
        return 1, 1
    if k in ("byte", "utf8"):
        return 8, 1
    if k in ("uint", "int", "float", "void"):
        return s[1], 1
    if k == "ref":
        d = deps_by_ref.get((tuple(s[1]), s[2], s[3]))
        if d is None or d["service"]:
            return None
        if d["extent"] is not None:
            return 32 + d["extent"], 8
        return fields_max(d["fields"], d["union"], {}), 8
    raise ValueError(k)


def tx_layout(t, deps_by_ref):
    e = sx_layout(t[1], deps_by_ref)
    if e is None:
        return None
    if t[0] == "s":
        return e
    n = t[2] - 1 if t[0] == "vare" else t[2]
    if n < 0:
        return None
    if t[0] == "fix":
        return e[0] * n, e[1]
    bl = max(8, n.bit_length())
    prefix = 8
    while prefix < bl:
        prefix *= 2
    return prefix + e[0] * n, e[1]


def fields_max(txs, union, deps_by_ref):
    ls = [tx_layout(t, deps_by_ref) for t in txs]
    if any(x is None for x in ls):
        return None
    if union and len(ls) >= 2:
        return _pad(8 + max(x[0] for x in ls), 8)
    off = 0
    for mx, al in ls:
        off = _pad(off, al) + mx
    return _pad(off, 8)


def deps_index(case):
    """how the definition can refer to each dependency: full name, and the short name when in the same namespace"""
    idx = {}
    ns = [case["id"]["root"]] + list(case["id"]["ns"])
    for d in case["deps"]:
        full = [d["root"]] + list(d["ns"]) + [d["short"]]
        idx[(tuple(full), d["ver"][0], d["ver"][1])] = d
        if full[:-1] == ns:
            idx[((d["short"],), d["ver"][0], d["ver"][1])] = d
    return idx


def section_max(case, sec):
    idx = deps_index(case)
    union = any(s[0] == "dir" and s[1] == "union" for s in sec)
    txs = [s[1] if s[0] == "field" else ["s", ["void", s[1]]] for s in sec if s[0] in ("field", "pad")]
    return fields_max(txs, union, idx)


# ----------------------------------------------------------------------------------------------------------------
# emission


def e_cast(c):
    return "Trunc" if c == "trunc" else "Sat"


def e_names(comps):
    return G.lst([G.codepoints(c) for c in comps])


def e_sx(s):
    k = s[0]
    if k == "bool":
        return "XBool"
    if k == "byte":
        return "XByte"
    if k == "utf8":
        return "XUtf8"
    if k == "uint":
        return "(XUInt %s %s)" % (G.z(s[1]), e_cast(s[2]))
    if k == "int":
        return "(XSInt %s %s)" % (G.z(s[1]), e_cast(s[2]))
    if k == "float":
        return "(XFloat %s %s)" % (G.z(s[1]), e_cast(s[2]))
    if k == "void":
        return "(XVoid %s)" % G.z(s[1])
    if k == "ref":
        return "(XRef %s %s %s)" % (e_names(s[1]), G.z(s[2]), G.z(s[3]))
    raise ValueError(k)


def e_tx(t):
    k = t[0]
    if k == "s":
        return "(TxS %s)" % e_sx(t[1])
    return "(%s %s %s)" % ({"fix": "TxFix", "vari": "TxVarI", "vare": "TxVarE"}[k], e_sx(t[1]), G.z(t[2]))


def e_val(v):
    k = v[0]
    if k == "bool":
        return "(VBool %s)" % G.b(v[1])
    if k == "rat":
        return "(VRat %s %s)" % (G.z(v[1]), G.z(v[2]))
    if k == "str":
        return "(VStr %s)" % G.codepoints(v[1])
    if k == "set":
        return "VSet"
    raise ValueError(k)


DIRS = {"union": "DUnion", "deprecated": "DDeprecated", "sealed": "DSealed", "extent": "DExtent", "assert": "DAssert",
        "print": "DPrint"}


def e_stmt(s):
    k = s[0]
    if k == "field":
        return "(SField %s %s)" % (e_tx(s[1]), G.codepoints(s[2]))
    if k == "pad":
        return "(SPad %s)" % G.z(s[1])
    if k == "const":
        return "(SConst %s %s %s)" % (e_tx(s[1]), G.codepoints(s[2]), e_val(s[3]))
    if k == "dir":
        return "(SDir %s %s)" % (DIRS.get(s[1], "DUnknown"), G.opt(None if s[2] is None else e_val(s[2])))
    raise ValueError(k)


def e_prim_ty(s):
    k = s[0]
    if k == "bool":
        return "(TPrim PBool)"
    if k == "byte":
        return "(TPrim PByte)"
    if k == "utf8":
        return "(TPrim PUtf8)"
    if k == "uint":
        return "(TPrim (PUInt %s %s))" % (G.z(s[1]), e_cast(s[2]))
    if k == "int":
        return "(TPrim (PSInt %s))" % G.z(s[1])
    if k == "float":
        return "(TPrim (PFloat %s %s))" % (G.z(s[1]), e_cast(s[2]))
    raise ValueError(k)  # dependencies contain primitives and arrays of primitives only


def e_dep_field_ty(t):
    k = t[0]
    if k == "s":
        return e_prim_ty(t[1])
    if k == "fix":
        return "(TFix %s %s)" % (e_prim_ty(t[1]), G.z(t[2]))
    if k == "vari":
        return "(TVar %s %s)" % (e_prim_ty(t[1]), G.z(t[2]))
    raise ValueError(k)


def e_dep(d):
    fs = G.lst(["(Some %s, %s)" % (G.codepoints("f%d" % j), e_dep_field_ty(t)) for j, t in enumerate(d["fields"])])
    inner = "(%s [] %s)" % ("TUnion" if d["union"] else "TStruct", fs)
    ty = inner if d["extent"] is None else "(TDelim %s %s)" % (inner, G.z(d["extent"]))
    return "(mkDep %s %s %s %s %s %s)" % (e_names([d["root"]] + list(d["ns"]) + [d["short"]]), G.z(d["ver"][0]),
                                          G.z(d["ver"][1]), G.b(d["deprecated"]), G.b(d["service"]), ty)


def e_case_input(case):
    i = case["id"]
    ident = "(mkId %s %s %s %s %s %s)" % (G.codepoints(i["root"]), e_names(i["ns"]), G.codepoints(i["short"]),
                                          G.z(i["ver"][0]), G.z(i["ver"][1]),
                                          G.opt(None if i["port"] is None else G.z(i["port"])))
    secs = case["sections"]
    defn = "(mkDefn %s %s %s)" % (ident, G.lst([e_stmt(s) for s in secs[0]]),
                                  G.lst([G.lst([e_stmt(s) for s in sec]) for sec in secs[1:]]))
    env = "(mkEnv %s %s)" % (G.lst([e_dep(d) for d in case["deps"]]), G.b(case["allow"]))
    return env, defn


ECLS = {"InvalidDefinition": "CInvalidDefinition", "Internal": "CInternal", "ValueError": "CValueError",
        "TypeError": "CTypeError", "Other": "COther"}


def emit(case, obs):
    env, defn = e_case_input(case)
    o = "C05.OAccept" if obs["verdict"] == "accept" else "(C05.OReject %s)" % ECLS[obs["verdict"]]
    return "(C05.mkCase %s %s %s)" % (env, defn, o)


def model_eval(case, obs):
    return "Eval vm_compute in (map (fun c => accept (C05.c_env c) (C05.c_defn c)) cases).\n"


# ----------------------------------------------------------------------------------------------------------------
# implementation side


def run_impl(cases):
    import os
    import shutil
    import tempfile
    from pathlib import Path
    import pydsdl

    scratch = os.environ["VERIF_SCRATCH"]
    out = []
    for case in cases:
        base = Path(tempfile.mkdtemp(prefix="c05_", dir=scratch))
        try:
            tgt_root = base / "t" / case["id"]["root"]
            lookups = set()
            tgt_file = base / "t" / rel_path(case["id"])
            tgt_file.parent.mkdir(parents=True, exist_ok=True)
            tgt_file.write_bytes(render_sections(case["sections"], case["ending"], case.get("decor", "plain")).encode("utf8"))
            for d in case["deps"]:
                top = base / ("l" if d["lookup"] else "t")
                p = top / rel_path({"root": d["root"], "ns": d["ns"], "short": d["short"], "ver": d["ver"]})
                p.parent.mkdir(parents=True, exist_ok=True)
                p.write_text(render_sections(dep_sections(d), "nl"), encoding="utf8")
                if d["lookup"]:
                    lookups.add(top / d["root"])
            ref_paths = []
            for rp, text in referrer_files(case):
                p = base / "t" / rp
                p.parent.mkdir(parents=True, exist_ok=True)
                p.write_text(text, encoding="utf8")
                ref_paths.append(p)
            sib_paths = []
            for rp, text in sibling_files(case):
                p = base / "t" / rp
                p.parent.mkdir(parents=True, exist_ok=True)
                p.write_text(text, encoding="utf8")
                sib_paths.append(p)
            transitive = []
            # the documented default of allow_unregulated_fixed_port_id is False: when the case wants False the keyword is
            # left out for half of the cases, so that the public default itself is under test
            kw = {} if (not case["allow"] and case.get("default_flag", False)) else {"allow_unregulated_fixed_port_id": case["allow"]}
            # lookup_directories defaults to None: leave it out as well when there is nothing to look up
            la = [] if (not lookups and case.get("omit_lookup", False)) else [sorted(lookups)]
            try:
                if case["api"] == "files-referrer" and ref_paths:
                    direct, transitive = pydsdl.read_files([ref_paths[0]], [tgt_root], *la, **kw)
                elif case["api"] in ("files", "files-referrer"):
                    direct, _ = pydsdl.read_files(sib_paths + [tgt_file], [tgt_root], *la, **kw)
                else:
                    direct = pydsdl.read_namespace(tgt_root, *la, **kw)
                o = {"verdict": "accept"}
                i = case["id"]
                want = ".".join([i["root"]] + list(i["ns"]) + [i["short"]])
                got = [t for t in list(direct) + list(transitive) if t.full_name == want and tuple(t.version) == tuple(i["ver"])]
                if len(got) != 1:
                    o["pred_fail"] = "the accepted definition is not among the returned types"
                elif got[0].fixed_port_id != i["port"] or isinstance(got[0], pydsdl.ServiceType) != (len(case["sections"]) == 2):
                    o["pred_fail"] = "the accepted definition has another port-ID or kind than written"
            except pydsdl.InvalidDefinitionError:
                o = {"verdict": "InvalidDefinition"}
            except pydsdl.InternalError:
                o = {"verdict": "Internal", "pred_fail": "rejected with InternalError, not InvalidDefinitionError"}
            except ValueError:
                o = {"verdict": "ValueError", "pred_fail": "rejected with ValueError, not InvalidDefinitionError"}
            except TypeError:
                o = {"verdict": "TypeError", "pred_fail": "rejected with TypeError, not InvalidDefinitionError"}
            except Exception as ex:  # pylint: disable=broad-except
                o = {"verdict": "Other", "pred_fail": "rejected with %s, not InvalidDefinitionError" % type(ex).__name__}
            out.append(o)
        finally:
            shutil.rmtree(base, ignore_errors=True)
    return out


# ----------------------------------------------------------------------------------------------------------------
# generator: valid skeletons

RESERVED_WORDS = ["truncated", "saturated", "true", "false", "bool", "optional", "aligned", "const", "struct", "super",
                  "template", "enum", "self", "and", "or", "not", "auto", "type", "con", "prn", "aux", "nul"]
RESERVED_PATTERNED = ["void", "void8", "void01", "int", "uint", "int8", "uint64", "uint007", "q1_2", "uq16_8", "q0_0",
                      "uq123_456", "float", "float16", "float128", "com1", "com0", "lpt9", "lpt3", "__", "_a_", "_1_",
                      "___", "_abc_def_"]
NEAR_MISSES = ["void_", "voids", "avoid", "void8x", "int_8", "uint8_t", "xint8", "q1", "q_1", "q1_", "uq_8", "q1_2a",
               "uuq1_2", "qq1_2", "float_", "floats", "float1x", "com", "com10", "comx", "lpt", "lpt10", "_", "_a",
               "a_", "_1", "truncate", "truncated_", "boolean", "constant", "autos", "nulls", "order", "And1", "typ",
               "selfie", "CON2", "TRUE_", "q1_2_3", "uq1__2"]
BAD_SYNTAX = ["0abc", "9", "a-b", "a b", "a.b", "été", "naïve", "K", "aK", "a$", "١", "a١"]
BAD_TYPE_NAMES = ["T ", " T", "\tT", "T\t", "a\u00a0", "T\u2003"]  # only for files and directories: blanks around a name
LETTERS = "abcdefghijklmnopqrstuvwxyzABCDEFGHIJKLMNOPQRSTUVWXYZ"


def rand_case(rng, s):
    return "".join(ch.upper() if rng.random() < 0.5 else ch.lower() for ch in s)


def gen_name(rng, used=()):
    """a valid name that does not collide (even up to case) with the used ones"""
    for _ in range(100):
        if rng.random() < 0.15:
            n = rng.choice(NEAR_MISSES)
        else:
            n = rng.choice(LETTERS + "_") + "".join(rng.choice(LETTERS + "0123456789_") for _ in range(rng.randrange(1, 8)))
            if n.startswith("_") and n.endswith("_"):
                n += "x"
        low = n.lower()
        if low in RESERVED_WORDS or low in RESERVED_PATTERNED or low in (u.lower() for u in used):
            continue
        if _py_reserved(low):
            continue
        return n
    raise RuntimeError("no name")


def _py_reserved(low):
    """generator-side copy of the patterns (only steers the generator; the verdict comes from Coq)"""
    import re
    pats = [r"void\d*$", r"u?int\d*$", r"u?q\d+_\d+$", r"float\d*$", r"com\d$", r"lpt\d$", r"_.*_$"]
    return low in RESERVED_WORDS or any(re.match(p, low) for p in pats)


def gen_prim_sx(rng, const_ok=False):
    r = rng.random()
    explicit = rng.random() < 0.3
    if r < 0.1:
        return ["bool"]
    if r < 0.55:
        w = rng.choice([1, 2, 3, 7, 8, 8, 16, 32, 63, 64, rng.randrange(1, 65)])
        return ["uint", w, rng.choice(["sat", "sat", "trunc"]), explicit]
    if r < 0.8:
        w = rng.choice([2, 3, 8, 16, 32, 63, 64, rng.randrange(2, 65)])
        return ["int", w, "sat", explicit]
    return ["float", rng.choice([16, 32, 64]), rng.choice(["sat", "trunc"]), explicit]


def gen_capacity(rng):
    return rng.choice([1, 1, 2, 3, 7, 255, 256, 65535, 65536, rng.randrange(1, 300)])


def gen_field_tx(rng, refs, allow_ref=True):
    """a valid field type; refs = list of (sx ref) that may be used"""
    r = rng.random()
    if refs and allow_ref and r < 0.35:
        s = rng.choice(refs)
    elif r < 0.45:
        s = rng.choice([["byte"], ["utf8"]])
        if s == ["utf8"] or rng.random() < 0.6:
            n = gen_capacity(rng)
            return rng.choice([["vari", s, n], ["vare", s, n + 1]])
        return ["fix", s, gen_capacity(rng)]
    else:
        s = gen_prim_sx(rng)
    k = rng.random()
    if k < 0.5:
        return ["s", s]
    n = gen_capacity(rng)
    if k < 0.7:
        return ["fix", s, n]
    if k < 0.9:
        return ["vari", s, n]
    return ["vare", s, n + 1]


def gen_const(rng, name):
    r = rng.random()
    if r < 0.15:
        return ["const", ["s", ["bool"]], name, ["bool", rng.random() < 0.5]]
    if r < 0.55:
        w = rng.choice([1, 8, 8, 16, 64, rng.randrange(1, 65)])
        hi = 2 ** w - 1
        v = rng.choice([0, hi, rng.randrange(0, hi + 1)])
        s = ["uint", w, rng.choice(["sat", "trunc"]), rng.random() < 0.3]
        if w == 8 and rng.random() < 0.4:
            return ["const", ["s", s], name, ["str", rng.choice("aZ09 ~#")]]
        if rng.random() < 0.2:
            return ["const", ["s", s], name, ["rat", v * 3, 3]]
        return ["const", ["s", s], name, ["rat", v, 1]]
    if r < 0.8:
        w = rng.choice([2, 8, 16, 64, rng.randrange(2, 65)])
        lo, hi = -2 ** (w - 1), 2 ** (w - 1) - 1
        return ["const", ["s", ["int", w, "sat", rng.random() < 0.3]], name, ["rat", rng.choice([lo, hi, 0, -1, rng.randrange(lo, hi + 1)]), 1]]
    w = rng.choice([16, 32, 64])
    m = {16: 65504, 32: 2 ** 128 - 2 ** 104, 64: 2 ** 1024 - 2 ** 971}[w]
    v = rng.choice([["rat", m, 1], ["rat", -m, 1], ["rat", 1, 3], ["rat", -7, 2], ["rat", 2 * m - 1, 2], ["rat", rng.randrange(-1000, 1000), rng.randrange(1, 50)]])
    return ["const", ["s", ["float", w, rng.choice(["sat", "trunc"]), False]], name, v]


def gen_dep(rng, ident, k, deprecated, service=False):
    lookup = rng.random() < 0.4
    if lookup:
        root, ns = rng.choice(["lkdep", "other_ns", "zz9"]), rng.choice([[], [], ["sub"]])
    else:
        root = ident["root"]
        ns = list(ident["ns"]) if rng.random() < 0.7 else rng.choice([[], ["aside"], list(ident["ns"]) + ["deeper"]])
    union = rng.random() < 0.3
    nf = rng.randrange(2, 4) if union else rng.randrange(0, 4)
    fields = []
    for _ in range(nf):
        t = gen_field_tx(rng, [], allow_ref=False)
        if t[0] == "vare":
            t = ["vari", t[1], t[2] - 1]
        fields.append(t)
    mx = fields_max(fields, union, {})
    extent = None if rng.random() < 0.5 else mx + 8 * rng.choice([0, 0, 1, 5])
    return {"root": root, "ns": ns, "short": "Dep%d%s" % (k, rng.choice(["", "x", "Y"])), "ver": [rng.choice([0, 1, 1, 255]), rng.choice([1, 1, 2, 255])],
            "deprecated": deprecated, "service": service, "union": union, "fields": fields, "extent": extent, "lookup": lookup}


def dep_ref(rng, ident, d):
    full = [d["root"]] + list(d["ns"]) + [d["short"]]
    same_ns = full[:-1] == [ident["root"]] + list(ident["ns"])
    comps = [d["short"]] if same_ns and rng.random() < 0.6 else full
    return ["ref", comps, d["ver"][0], d["ver"][1]]


def gen_section(rng, ident, refs, first, deprecated, force_union=None):
    union = rng.random() < 0.35 if force_union is None else force_union
    used = []
    attrs = []
    nf = rng.randrange(2, 5) if union else rng.choice([0, 1, 1, 2, 3, 4])
    for _ in range(nf):
        n = gen_name(rng, used)
        used.append(n)
        attrs.append(["field", gen_field_tx(rng, refs), n])
    for _ in range(rng.choice([0, 0, 1, 2])):
        n = gen_name(rng, used)
        used.append(n)
        attrs.insert(rng.randrange(0, len(attrs) + 1), gen_const(rng, n))
    if used and rng.random() < 0.2:
        # names are case-sensitive: a case variant of an existing name is another attribute
        n = rng.choice(used).swapcase()
        if n.lower() not in [u.lower() for u in used if u.swapcase() != n] and n not in used and not _py_reserved(n.lower()):
            used.append(n)
            attrs.insert(rng.randrange(0, len(attrs) + 1), gen_const(rng, n) if rng.random() < 0.4 else ["field", gen_field_tx(rng, refs), n])
    if not union:
        for _ in range(rng.choice([0, 0, 0, 1, 2])):
            attrs.insert(rng.randrange(0, len(attrs) + 1), ["pad", rng.choice([1, 3, 8, 32, 64, rng.randrange(1, 65)])])
    head = []
    if first and deprecated:
        head.append(["dir", "deprecated", None])
    if union:
        head.append(["dir", "union", None])
    rng.shuffle(head)
    sec = head + attrs
    delimited = rng.random() < 0.5
    if delimited:
        sec.append(["dir", "extent", ["auto", 0]])  # value filled in by fix_extents
    else:
        sec.insert(rng.randrange(0, len(sec) + 1), ["dir", "sealed", None])
    for _ in range(rng.choice([0, 0, 0, 1, 2])):
        d = rng.choice([["dir", "assert", ["bool", True]], ["dir", "print", None], ["dir", "print", ["rat", 5, 2]],
                        ["dir", "print", ["str", "hello"]], ["dir", "print", ["set"]], ["dir", "print", ["bool", False]]])
        sec.insert(rng.randrange(0, len(sec) + 1), d)
    return sec


def fix_extents(rng, case):
    """replace the ["auto", delta] placeholders: delta = 0 gives a valid extent (multiple of 8, >= longest
    representation); another delta gives max + delta"""
    for sec in case["sections"]:
        for s in sec:
            if s[0] == "dir" and s[1] == "extent" and s[2] is not None and s[2][0] == "auto":
                mx = section_max(case, sec)
                if mx is None:
                    mx = 64
                delta = s[2][1]
                if delta == 0:
                    ext = mx + 8 * rng.choice([0, 0, 0, 1, 2, 100])
                elif delta == "half":
                    s[2] = ["rat", 2 * mx + 1, 2]
                    continue
                else:
                    ext = mx + delta
                s[2] = ["rat", ext, 1] if rng.random() < 0.85 else ["rat", ext * 2, 2]


VENDOR_ROOTS = ["ns", "vendor_x", "Acme", "uavcanx", "Cyphal", "UAVCAN"]
STANDARD_ROOTS = ["uavcan", "cyphal"]


def gen_ident(rng, service):
    root = rng.choice(VENDOR_ROOTS + STANDARD_ROOTS)
    ns = [gen_name(rng) for _ in range(rng.choice([0, 0, 1, 1, 2]))]
    ver = rng.choice([[1, 0], [0, 1], [255, 255], [0, 255], [255, 0], [rng.randrange(0, 256), rng.randrange(1, 256)]])
    port = None
    allow = rng.random() < 0.5
    if rng.random() < 0.3:
        std = root in STANDARD_ROOTS
        if service:
            lo, hi = (384, 511) if std else (256, 383)
            full = (0, 511)
        else:
            lo, hi = (7168, 8191) if std else (6144, 7167)
            full = (0, 8191)
        if allow and rng.random() < 0.5:
            port = rng.choice([full[0], full[1], rng.randrange(full[0], full[1] + 1)])
        else:
            port = rng.choice([lo, hi, rng.randrange(lo, hi + 1)])
    return {"root": root, "ns": ns, "short": gen_name(rng), "ver": ver, "port": port}, allow


def gen_skeleton(rng, service=None, union=None, with_deps=None, deprecated=None):
    service = rng.random() < 0.4 if service is None else service
    deprecated = rng.random() < 0.3 if deprecated is None else deprecated
    ident, allow = gen_ident(rng, service)
    ndeps = rng.choice([0, 1, 1, 2, 3]) if (rng.random() < 0.6 if with_deps is None else with_deps) else 0
    deps = []
    for k in range(ndeps):
        deps.append(gen_dep(rng, ident, k, deprecated and rng.random() < 0.6))
    refs = [dep_ref(rng, ident, d) for d in deps]
    case = {"id": ident, "allow": allow, "deps": deps, "sections": [], "tags": [],
            "ending": rng.choice(["nl", "nl", "none", "none", "comment"]), "api": "namespace" if rng.random() < 0.8 else "files",
            "decor": rng.choice(["plain", "plain", "plain", "comments", "blank", "crlf"])}
    case["sections"].append(gen_section(rng, ident, refs, True, deprecated, force_union=union))
    if service:
        case["sections"].append(gen_section(rng, ident, refs, False, deprecated, force_union=None))
    return case


def is_deprecated(case):
    return any(s[0] == "dir" and s[1] == "deprecated" for s in case["sections"][0])


# ----------------------------------------------------------------------------------------------------------------
# violation injectors: each plants one violation of its category at a random position and returns a tag (or None)


def _attr_limit(sec):
    """attributes may be inserted at positions 0..limit (not behind an @extent)"""
    for j, s in enumerate(sec):
        if s[0] == "dir" and s[1] == "extent":
            return j
    return len(sec)


def _is_union(sec):
    return any(s[0] == "dir" and s[1] == "union" for s in sec)


def _used_names(sec):
    return [s[2] for s in sec if s[0] in ("field", "const")]


def _insert_attr(rng, case, stmt, sec_index=None):
    j = rng.randrange(len(case["sections"])) if sec_index is None else sec_index
    sec = case["sections"][j]
    lo = 0
    if _is_union(sec) or (j == 0 and is_deprecated(case)):
        # keep the placement rules of @union/@deprecated intact: insert behind them
        lo = 1 + max(k for k, s in enumerate(sec) if s[0] == "dir" and s[1] in ("union", "deprecated"))
    hi = _attr_limit(sec)
    pos = rng.randrange(lo, hi + 1) if hi >= lo else len(sec)
    sec.insert(pos, stmt)
    return j


def _fresh(rng, case, j=None):
    used = [n for sec in case["sections"] for n in _used_names(sec)]
    return gen_name(rng, used)


def _wrap(rng, s):
    r = rng.random()
    if r < 0.4:
        return ["s", s]
    n = gen_capacity(rng)
    return rng.choice([["fix", s, n], ["vari", s, n], ["vare", s, n + 1]])


def inj_width(rng, case):
    k = rng.choice(["uint", "int", "float", "void", "voidarr"])
    if k == "uint":
        s = ["uint", rng.choice([0, 65, 65, 100, 128, 2 ** 70]), rng.choice(["sat", "trunc"]), rng.random() < 0.3]
    elif k == "int":
        s = ["int", rng.choice([0, 1, 1, 65, 128]), "sat", rng.random() < 0.3]
    elif k == "float":
        s = ["float", rng.choice([0, 1, 8, 15, 17, 24, 31, 33, 48, 63, 65, 80, 128]), rng.choice(["sat", "trunc"]), rng.random() < 0.3]
    else:
        w = rng.choice([0, 65, 65, 100])
        if k == "void":
            secs = [j for j, sec in enumerate(case["sections"]) if not _is_union(sec)]
            if not secs:
                return None
            _insert_attr(rng, case, ["pad", w], rng.choice(secs))
            return "width:void%d" % min(w, 66)
        s = ["void", w]
    _insert_attr(rng, case, ["field", _wrap(rng, s), _fresh(rng, case)])
    return "width:%s" % k


def inj_trunc_signed(rng, case):
    s = ["int", rng.choice([2, 8, 16, 64, rng.randrange(2, 65)]), "trunc", True]
    if rng.random() < 0.3:
        _insert_attr(rng, case, ["const", ["s", s], _fresh(rng, case), ["rat", 0, 1]])
    else:
        _insert_attr(rng, case, ["field", _wrap(rng, s), _fresh(rng, case)])
    return "trunc-signed"


def inj_capacity(rng, case):
    s = rng.choice([gen_prim_sx(rng), ["byte"], ["utf8"]])
    t = rng.choice([["fix", s, 0], ["vari", s, 0], ["vare", s, 1], ["vare", s, 0], ["fix", s, -1], ["vari", s, -3],
                    ["vari", s, 2 ** 64], ["vare", s, 2 ** 64 + 1], ["vari", s, 2 ** 70]])
    if s == ["utf8"] and t[0] == "fix":
        t[0] = "vari"
    _insert_attr(rng, case, ["field", t, _fresh(rng, case)])
    return "capacity"


def bad_name(rng):
    r = rng.random()
    if r < 0.4:
        return rand_case(rng, rng.choice(RESERVED_WORDS)), "reserved-word"
    if r < 0.8:
        return rand_case(rng, rng.choice(RESERVED_PATTERNED)), "reserved-pattern"
    return rng.choice(BAD_SYNTAX), "syntax"


def inj_attr_name(rng, case):
    n, why = bad_name(rng)
    if rng.random() < 0.3:
        st = gen_const(rng, n)
    else:
        st = ["field", gen_field_tx(rng, []), n]
    _insert_attr(rng, case, st)
    return "attr-name:" + why


def inj_dup_attr(rng, case):
    j = rng.randrange(len(case["sections"]))
    names = _used_names(case["sections"][j])
    if not names:
        n = _fresh(rng, case)
        _insert_attr(rng, case, ["field", gen_field_tx(rng, []), n], j)
    else:
        n = rng.choice(names)
    st = gen_const(rng, n) if rng.random() < 0.4 else ["field", gen_field_tx(rng, []), n]
    _insert_attr(rng, case, st, j)
    return "dup-attr"


def _replace_section(rng, case, j, union):
    refs = [dep_ref(rng, case["id"], d) for d in case["deps"] if not d["service"] and (is_deprecated(case) or not d["deprecated"])]
    case["sections"][j] = gen_section(rng, case["id"], refs, j == 0, is_deprecated(case), force_union=union)


def inj_union_arity(rng, case):
    j = rng.randrange(len(case["sections"]))
    _replace_section(rng, case, j, True)
    sec = case["sections"][j]
    keep = rng.choice([0, 1])
    seen = 0
    out = []
    for s in sec:
        if s[0] == "field":
            seen += 1
            if seen > keep:
                continue
        out.append(s)
    case["sections"][j] = out
    return "union-arity:%d" % keep


def inj_union_pad(rng, case):
    j = rng.randrange(len(case["sections"]))
    if not _is_union(case["sections"][j]):
        _replace_section(rng, case, j, True)
    _insert_attr(rng, case, ["pad", rng.choice([1, 8, 64])], j)
    return "union-pad"


def inj_void(rng, case):
    k = rng.choice(["named", "array", "const"])
    v = ["void", rng.choice([1, 8, 16, 64])]
    if k == "named":
        st = ["field", ["s", v], _fresh(rng, case)]
    elif k == "array":
        st = ["field", rng.choice([["fix", v, 2], ["vari", v, 3], ["vare", v, 3]]), _fresh(rng, case)]
    else:
        st = ["const", ["s", v], _fresh(rng, case), ["rat", 0, 1]]
    _insert_attr(rng, case, st)
    return "void:" + k


def inj_utf8_byte(rng, case):
    k = rng.choice(["utf8-scalar", "utf8-fixed", "byte-scalar", "byte-const", "utf8-const"])
    n = _fresh(rng, case)
    st = {"utf8-scalar": ["field", ["s", ["utf8"]], n], "utf8-fixed": ["field", ["fix", ["utf8"], gen_capacity(rng)], n],
          "byte-scalar": ["field", ["s", ["byte"]], n], "byte-const": ["const", ["s", ["byte"]], n, ["rat", 7, 1]],
          "utf8-const": ["const", ["s", ["utf8"]], n, ["str", "a"]]}[k]
    _insert_attr(rng, case, st)
    return k


def _strip_deprecated(case):
    case["sections"][0] = [s for s in case["sections"][0] if not (s[0] == "dir" and s[1] == "deprecated")]


def inj_deprecated_dep(rng, case):
    if is_deprecated(case):
        _strip_deprecated(case)
        if any(d["deprecated"] for d in case["deps"]) and _refs_deprecated(case):
            return "deprecated-dep:undeprecate"
    d = gen_dep(rng, case["id"], len(case["deps"]) + 10, True)
    case["deps"].append(d)
    r = dep_ref(rng, case["id"], d)
    t = rng.choice([["s", r], ["fix", r, gen_capacity(rng)], ["vari", r, gen_capacity(rng)], ["vare", r, 1 + gen_capacity(rng)]])
    _insert_attr(rng, case, ["field", t, _fresh(rng, case)])
    if rng.random() < 0.8:
        case["siblings"] = rng.choice(["before", "after", "both"])
    return "deprecated-dep:" + t[0]


def _refs_deprecated(case):
    idx = deps_index(case)
    for sec in case["sections"]:
        for s in sec:
            if s[0] == "field" and s[1][1][0] == "ref":
                d = idx.get((tuple(s[1][1][1]), s[1][1][2], s[1][1][3]))
                if d is not None and d["deprecated"]:
                    return True
    return False


def inj_service_ref(rng, case):
    d = gen_dep(rng, case["id"], len(case["deps"]) + 20, False, service=True)
    d["deprecated"] = is_deprecated(case) and rng.random() < 0.5
    case["deps"].append(d)
    r = dep_ref(rng, case["id"], d)
    t = rng.choice([["s", r], ["s", r], ["fix", r, 2], ["vari", r, 2], ["vare", r, 3]])
    _insert_attr(rng, case, ["field", t, _fresh(rng, case)])
    return "service-ref:" + t[0]


def inj_undefined_ref(rng, case):
    k = rng.choice(["missing", "version", "case", "self"])
    ident = case["id"]
    if k == "self":
        r = ["ref", [ident["short"]], ident["ver"][0], ident["ver"][1]]
    elif k == "missing" or not case["deps"]:
        k = "missing"
        r = ["ref", rng.choice([["Nowhere"], [ident["root"], "Nowhere"], ["nothing", "here", "Z"]]), 1, 0]
    else:
        d = rng.choice(case["deps"])
        r = dep_ref(rng, ident, d)
        if k == "version":
            r[rng.choice([2, 3])] += rng.choice([1, 1000])
        else:
            comps = list(r[1])
            j = rng.randrange(len(comps))
            sw = comps[j].swapcase()
            if sw == comps[j]:
                return None
            comps[j] = sw
            r[1] = comps
    _insert_attr(rng, case, ["field", _wrap(rng, r), _fresh(rng, case)])
    return "undefined-ref:" + k


def _mode_positions(sec):
    return [k for k, s in enumerate(sec) if s[0] == "dir" and s[1] in ("sealed", "extent")]


def inj_mode_missing(rng, case):
    j = rng.randrange(len(case["sections"]))
    case["sections"][j] = [s for s in case["sections"][j] if not (s[0] == "dir" and s[1] in ("sealed", "extent"))]
    return "mode-missing"


def inj_mode_dup(rng, case):
    j = rng.randrange(len(case["sections"]))
    sec = case["sections"][j]
    extra = rng.choice([["dir", "sealed", None], ["dir", "extent", ["auto", 0]]])
    if extra[1] == "extent":
        last_attr = max([k for k, s in enumerate(sec) if s[0] != "dir"] + [-1])
        pos = rng.randrange(last_attr + 1, len(sec) + 1)
    else:
        pos = rng.randrange(0, len(sec) + 1)
    sec.insert(pos, extra)
    return "mode-dup:" + extra[1]


def inj_extent_not_last(rng, case):
    j = rng.randrange(len(case["sections"]))
    sec = case["sections"][j]
    pos = [k for k, s in enumerate(sec) if s[0] == "dir" and s[1] == "extent"]
    if not pos:
        # turn the sealed section into a delimited one
        sec[:] = [s for s in sec if not (s[0] == "dir" and s[1] == "sealed")]
        sec.append(["dir", "extent", ["auto", 0]])
        pos = [len(sec) - 1]
    k = pos[0]
    if _is_union(sec):
        st = ["field", gen_field_tx(rng, []), _fresh(rng, case)]
    else:
        st = rng.choice([["field", gen_field_tx(rng, []), _fresh(rng, case)], ["pad", 8], gen_const(rng, _fresh(rng, case))])
    sec.insert(rng.randrange(k + 1, len(sec) + 1), st)
    return "extent-not-last:" + st[0]


def inj_extent_value(rng, case):
    j = rng.randrange(len(case["sections"]))
    sec = case["sections"][j]
    pos = [k for k, s in enumerate(sec) if s[0] == "dir" and s[1] == "extent"]
    if not pos:
        sec[:] = [s for s in sec if not (s[0] == "dir" and s[1] == "sealed")]
        sec.append(["dir", "extent", ["auto", 0]])
        pos = [len(sec) - 1]
    mx = section_max(case, sec)
    k = rng.choice(["small", "unaligned", "half", "negative"])
    if k == "small" and (mx is None or mx < 8):
        k = "unaligned"
    sec[pos[0]][2] = {"small": ["auto", -8 * rng.choice([1, 1, 2])], "unaligned": ["auto", rng.choice([1, 4, 7, 9, 12])],
                      "half": ["auto", "half"], "negative": ["rat", -8 * rng.choice([1, 100]), 1]}[k]
    if k == "small" and sec[pos[0]][2][1] == -16 and mx < 16:
        sec[pos[0]][2] = ["auto", -8]
    return "extent-value:" + k


def inj_directive(rng, case):
    k = rng.choice(["union-late", "union-dup", "deprecated-late", "deprecated-dup", "deprecated-response", "unexpected-expr",
                    "extent-expr", "assert", "unknown", "div-zero"])
    nsec = len(case["sections"])
    j = rng.randrange(nsec)
    sec = case["sections"][j]
    attrs = [q for q, s in enumerate(sec) if s[0] != "dir"]
    if k == "union-late":
        if not attrs:
            _insert_attr(rng, case, ["field", gen_field_tx(rng, []), _fresh(rng, case)], j)
            _insert_attr(rng, case, ["field", gen_field_tx(rng, []), _fresh(rng, case)], j)
            attrs = [q for q, s in enumerate(sec) if s[0] != "dir"]
        if any(s[0] == "pad" for s in sec):
            k = "union-late+pad"
        sec[:] = [s for s in sec if not (s[0] == "dir" and s[1] == "union")]
        attrs = [q for q, s in enumerate(sec) if s[0] != "dir"]
        sec.insert(rng.randrange(attrs[0] + 1, len(sec) + 1), ["dir", "union", None])
    elif k == "union-dup":
        if not _is_union(sec):
            _replace_section(rng, case, j, True)
            sec = case["sections"][j]
        sec.insert(rng.randrange(0, len(sec) + 1), ["dir", "union", None])
    elif k == "deprecated-late":
        sec = case["sections"][0]
        _strip_deprecated(case)
        sec = case["sections"][0]
        attrs = [q for q, s in enumerate(sec) if s[0] != "dir"]
        if not attrs:
            _insert_attr(rng, case, ["field", gen_field_tx(rng, []), _fresh(rng, case)], 0)
            attrs = [q for q, s in enumerate(sec) if s[0] != "dir"]
        sec.insert(rng.randrange(attrs[0] + 1, len(sec) + 1), ["dir", "deprecated", None])
    elif k == "deprecated-dup":
        sec = case["sections"][0]
        if not is_deprecated(case):
            sec.insert(0, ["dir", "deprecated", None])
        first_attr = min([q for q, s in enumerate(sec) if s[0] != "dir"] + [len(sec)])
        sec.insert(rng.randrange(0, first_attr + 1), ["dir", "deprecated", None])
    elif k == "deprecated-response":
        if nsec < 2:
            return None
        _strip_deprecated(case) if rng.random() < 0.5 else None
        case["sections"][1].insert(0, ["dir", "deprecated", None])
    elif k == "unexpected-expr":
        cands = [s for s in sec if s[0] == "dir" and s[1] in ("union", "deprecated", "sealed") and s[2] is None]
        if not cands:
            return None
        rng.choice(cands)[2] = rng.choice([["bool", True], ["rat", 1, 1], ["str", "x"], ["set"], ["rat", 64, 1]])
    elif k == "extent-expr":
        pos = [q for q, s in enumerate(sec) if s[0] == "dir" and s[1] == "extent"]
        if not pos:
            sec[:] = [s for s in sec if not (s[0] == "dir" and s[1] == "sealed")]
            sec.append(["dir", "extent", None])
            pos = [len(sec) - 1]
        sec[pos[0]][2] = rng.choice([None, ["bool", True], ["str", "64"], ["set"]])
    elif k == "assert":
        sec.insert(rng.randrange(0, len(sec) + 1), ["dir", "assert", rng.choice([["bool", False], None, ["rat", 1, 1], ["str", "true"], ["set"]])])
    elif k == "unknown":
        sec.insert(rng.randrange(0, len(sec) + 1), ["dir", rng.choice(["foo", "Sealed", "UNION", "extend", "seal", "assert_", "printf"]),
                                                    rng.choice([None, ["bool", True], ["rat", 8, 1]])])
    elif k == "div-zero":
        sec.insert(rng.randrange(0, len(sec) + 1), ["dir", rng.choice(["print", "assert"]), ["rat", rng.choice([0, 1, -5]), 0]])
    return "directive:" + k


def inj_third_section(rng, case):
    if len(case["sections"]) < 2:
        case["sections"].append([["dir", "sealed", None]])
    case["sections"].append(rng.choice([[["dir", "sealed", None]], [], [["field", ["s", ["bool"]], "x"], ["dir", "sealed", None]]]))
    return "third-section"


def inj_version(rng, case):
    case["id"]["ver"] = rng.choice([[0, 0], [0, 0], [256, 0], [0, 256], [256, 256], [1000, 1], [1, 99999]])
    return "version"


def _port_ranges(case):
    service = len(case["sections"]) == 2
    std = case["id"]["root"] in STANDARD_ROOTS
    if service:
        return (0, 511), ((384, 511) if std else (256, 383))
    return (0, 8191), ((7168, 8191) if std else (6144, 7167))


def inj_port(rng, case):
    if len(case["sections"]) > 2:
        return None
    full, reg = _port_ranges(case)
    k = rng.choice(["range", "unregulated"])
    if k == "range":
        case["id"]["port"] = rng.choice([full[1] + 1, full[1] + 1, full[1] + 1000, 65535, 2 ** 32])
        case["allow"] = rng.random() < 0.7
    else:
        case["id"]["port"] = rng.choice([reg[0] - 1, reg[1] + 1 if reg[1] < full[1] else reg[0] - 1, 0, rng.randrange(0, reg[0])])
        case["allow"] = False
    return "port:" + k


def inj_type_name(rng, case):
    n, why = bad_name(rng)
    if n in ("a.b",):
        n = "9z"
    if rng.random() < 0.1:
        n, why = rng.choice(BAD_TYPE_NAMES), "blanks"
    where = rng.choice(["short", "ns", "root"])
    old_ns = [case["id"]["root"]] + list(case["id"]["ns"])
    if where == "short":
        case["id"]["short"] = n
    elif where == "ns":
        ns = list(case["id"]["ns"])
        if not ns:
            ns = [n]
        else:
            ns[rng.randrange(len(ns))] = n
        case["id"]["ns"] = ns
    else:
        case["id"]["root"] = n
    # dependencies of the same root namespace move with it; references are rewritten to the new spelling
    new_ns = [case["id"]["root"]] + list(case["id"]["ns"])
    if where != "short":
        for d in case["deps"]:
            if d["lookup"]:
                continue
            full_old = [d["root"]] + list(d["ns"])
            if where == "root":
                d["root"] = n
            elif full_old[:len(old_ns)] == old_ns:
                d["ns"] = new_ns[1:] + list(d["ns"])[len(old_ns) - 1:]
            full_new = [d["root"]] + list(d["ns"]) + [d["short"]]
            for sec in case["sections"]:
                for s in sec:
                    if s[0] in ("field", "const") and s[1][1][0] == "ref" and s[1][1][1] == full_old + [d["short"]]:
                        s[1][1][1] = full_new
    return "type-name:%s:%s" % (where, why)


def set_name_length(rng, case, total):
    """rewrite the namespace so that the full name has exactly `total` characters (dependencies are dropped)"""
    case["deps"] = []
    for sec in case["sections"]:
        sec[:] = [s for s in sec if not (s[0] in ("field", "const") and s[1][1][0] == "ref")]
    for j, sec in enumerate(case["sections"]):
        if _is_union(sec) and sum(1 for s in sec if s[0] == "field") < 2:
            case["sections"][j] = [["dir", "sealed", None]]
    root = case["id"]["root"]
    rest = total - len(root) - 1
    comps = []
    while rest > 120:
        c = "n" + "".join(rng.choice("abcxyz_09") for _ in range(98)) + "e"
        comps.append(c)
        rest -= len(c) + 1
    short = "S" + "".join(rng.choice("abcXYZ09") for _ in range(rest - 1))
    case["id"]["ns"] = comps
    case["id"]["short"] = short
    assert len(".".join([root] + comps + [short])) == total


def inj_name_length(rng, case):
    service = len(case["sections"]) == 2
    limit = 246 if service else 255
    set_name_length(rng, case, limit + rng.choice([1, 1, 2, 9, 40]))
    return "name-length"


def inj_const_value(rng, case):
    n = _fresh(rng, case)
    k = rng.choice(["range", "kind", "type", "non-integer", "string"])
    if k == "range":
        w = rng.choice([1, 8, 16, 64, rng.randrange(1, 65)])
        st = rng.choice([["const", ["s", ["uint", w, "sat", False]], n, ["rat", rng.choice([2 ** w, -1, 2 ** w + 5]), 1]],
                         ["const", ["s", ["int", max(w, 2), "sat", False]], n, ["rat", rng.choice([2 ** (max(w, 2) - 1), -2 ** (max(w, 2) - 1) - 1]), 1]],
                         ["const", ["s", ["float", 16, "sat", False]], n, rng.choice([["rat", 65505, 1], ["rat", -65505, 1], ["rat", 131009, 2], ["rat", -131009, 2]])],
                         ["const", ["s", ["float", 32, "sat", False]], n, ["rat", 2 ** 128 - 2 ** 104 + 1, 1]],
                         ["const", ["s", ["float", 64, "trunc", False]], n, ["rat", -(2 ** 1025 - 2 ** 972 + 1), 2]]])
    elif k == "kind":
        st = rng.choice([["const", ["s", ["bool"]], n, ["rat", 1, 1]], ["const", ["s", ["uint", 8, "sat", False]], n, ["bool", True]],
                         ["const", ["s", ["float", 32, "sat", False]], n, ["str", "a"]], ["const", ["s", ["int", 8, "sat", False]], n, ["set"]],
                         ["const", ["s", ["bool"]], n, ["set"]], ["const", ["s", ["float", 64, "sat", False]], n, ["bool", False]]])
    elif k == "type":
        st = rng.choice([["const", ["fix", ["uint", 8, "sat", False], 2], n, ["rat", 1, 1]],
                         ["const", ["vari", ["uint", 8, "sat", False], 2], n, ["str", "a"]]])
        cands = [d for d in case["deps"] if not d["service"] and (is_deprecated(case) or not d["deprecated"])]
        if cands and rng.random() < 0.5:
            st = ["const", ["s", dep_ref(rng, case["id"], rng.choice(cands))], n, ["rat", 1, 1]]
    elif k == "non-integer":
        st = ["const", ["s", rng.choice([["uint", 8, "sat", False], ["int", 16, "sat", False]])], n, ["rat", rng.choice([1, 7, -3]), 2]]
    else:
        st = rng.choice([["const", ["s", ["uint", 8, "sat", False]], n, ["str", rng.choice(["ab", "", "é", "я", "€"])]],
                         ["const", ["s", ["uint", 16, "sat", False]], n, ["str", "a"]],
                         ["const", ["s", ["int", 8, "sat", False]], n, ["str", "a"]],
                         ["const", ["s", ["uint", 7, "trunc", False]], n, ["str", "a"]]])
    _insert_attr(rng, case, st)
    return "const-value:" + k


def inj_shuffle(rng, case):
    """not a violation by itself: a random permutation of the statements of one section (explores placements)"""
    j = rng.randrange(len(case["sections"]))
    rng.shuffle(case["sections"][j])
    return "shuffle"


INJECTORS = [inj_shuffle, inj_width, inj_trunc_signed, inj_capacity, inj_attr_name, inj_dup_attr, inj_union_arity, inj_union_pad, inj_void,
             inj_utf8_byte, inj_deprecated_dep, inj_service_ref, inj_undefined_ref, inj_mode_missing, inj_mode_dup,
             inj_extent_not_last, inj_extent_value, inj_directive, inj_third_section, inj_version, inj_port, inj_type_name,
             inj_name_length, inj_const_value]


# ----------------------------------------------------------------------------------------------------------------
# hostile stream: statement soups (no skeleton; any statement, any parameter from boundary-heavy pools, any order)

SOUP_NAMES = ["a", "b", "A", "x1", "_", "a_", "value", "q1", "uint8_t", "int", "Bool", "com1", "_x_", "float", "lpt10", "c", "d"]
SOUP_WIDTHS = [0, 1, 2, 7, 8, 16, 17, 32, 33, 63, 64, 65]
SOUP_CAPS = [-1, 0, 1, 2, 3, 255, 256, 2 ** 64 - 1, 2 ** 64, 2 ** 64 + 1]
SOUP_VALUES = [None, ["bool", True], ["bool", False], ["rat", 0, 1], ["rat", 8, 1], ["rat", 64, 1], ["rat", 72, 1], ["rat", 144, 2],
               ["rat", 1, 2], ["rat", -8, 1], ["rat", 1, 0], ["str", "a"], ["str", "ab"], ["set"], ["rat", 255, 1], ["rat", 256, 1],
               ["rat", 1024, 1], ["rat", 100000, 1]]


def soup_sx(rng, refs):
    r = rng.random()
    if r < 0.12 and refs:
        return list(rng.choice(refs))
    if r < 0.2:
        return ["bool"]
    if r < 0.3:
        return rng.choice([["byte"], ["utf8"]])
    if r < 0.4:
        return ["void", rng.choice(SOUP_WIDTHS)]
    k = rng.choice(["uint", "uint", "int", "float"])
    return [k, rng.choice(SOUP_WIDTHS), rng.choice(["sat", "sat", "trunc"]), rng.random() < 0.3]


def soup_tx(rng, refs):
    s = soup_sx(rng, refs)
    r = rng.random()
    if r < 0.5:
        return ["s", s]
    return [rng.choice(["fix", "vari", "vare"]), s, rng.choice(SOUP_CAPS)]


def soup_stmt(rng, refs):
    r = rng.random()
    if r < 0.3:
        return ["field", soup_tx(rng, refs), rng.choice(SOUP_NAMES)]
    if r < 0.38:
        return ["pad", rng.choice(SOUP_WIDTHS)]
    if r < 0.5:
        v = rng.choice(SOUP_VALUES[1:])
        return ["const", soup_tx(rng, []) if rng.random() < 0.2 else ["s", soup_sx(rng, [])], rng.choice(SOUP_NAMES), v]
    d = rng.choice(["union", "deprecated", "sealed", "sealed", "extent", "extent", "assert", "print", "foo"])
    if d in ("union", "deprecated", "sealed"):
        v = None if rng.random() < 0.9 else rng.choice(SOUP_VALUES)
    elif d == "assert":
        v = ["bool", True] if rng.random() < 0.7 else rng.choice(SOUP_VALUES)
    elif d == "extent":
        v = rng.choice(SOUP_VALUES) if rng.random() < 0.8 else ["auto", rng.choice([0, 0, 8, -8, 4])]
    else:
        v = rng.choice(SOUP_VALUES)
    return ["dir", d, v]


def gen_soup(rng):
    service = rng.random() < 0.4
    ident, allow = gen_ident(rng, service)
    deps = [gen_dep(rng, ident, k, rng.random() < 0.4, service=rng.random() < 0.15) for k in range(rng.choice([0, 0, 1, 2]))]
    refs = [dep_ref(rng, ident, d) for d in deps]
    nsec = 2 if service else 1
    if rng.random() < 0.03:
        nsec = 3
    secs = [[soup_stmt(rng, refs) for _ in range(rng.choice([0, 1, 2, 2, 3, 4, 5, 7]))] for _ in range(nsec)]
    # most soups would fail for lack of a mode: give most sections one, at a random place
    for sec in secs:
        if rng.random() < 0.6 and not any(s[0] == "dir" and s[1] in ("sealed", "extent") for s in sec):
            sec.insert(rng.randrange(len(sec) + 1), ["dir", "sealed", None] if rng.random() < 0.5 else ["dir", "extent", ["auto", 0]])
    case = {"id": ident, "allow": allow, "deps": deps, "sections": secs, "tags": ["soup"],
            "ending": rng.choice(["nl", "none", "comment"]), "api": "namespace" if rng.random() < 0.8 else "files",
            "decor": rng.choice(["plain", "plain", "comments", "blank", "crlf"])}
    return finish(rng, case)


def finish(rng, case):
    fix_extents(rng, case)
    if "referrers" not in case:
        # only message types can be nested; a referrer of a service would be invalid on its own account
        if len(case["sections"]) == 1 and rng.random() < 0.35:
            case["referrers"] = rng.choice(["before", "after", "both"])
            if case["api"] == "files" and rng.random() < 0.6:
                case["api"] = "files-referrer"
        else:
            case["referrers"] = "none"
    if "omit_lookup" not in case:
        case["omit_lookup"] = rng.random() < 0.5
    if "default_flag" not in case:
        case["default_flag"] = (not case["allow"]) and rng.random() < 0.5
    if "siblings" not in case:
        usable = [d for d in case["deps"] if not d["service"]]
        case["siblings"] = rng.choice(["before", "after", "both", "both"]) if usable and rng.random() < 0.6 else "none"
    return case


def gen_planted(rng, nviol, injectors=None):
    case = gen_skeleton(rng)
    chosen = []
    pool = list(injectors or INJECTORS)
    tries = 0
    while len(chosen) < nviol and tries < 10:
        tries += 1
        f = rng.choice(pool)
        if f in chosen and nviol > 1:
            continue
        tag = f(rng, case)
        if tag is not None:
            chosen.append(f)
            case["tags"].append(tag)
    return finish(rng, case)


# ----------------------------------------------------------------------------------------------------------------
# boundary neighbours of every numeric rule (targeted stream)


def minimal(root="ns", service=False, port=None, allow=False, ver=(1, 0), short="T"):
    secs = [[["dir", "sealed", None]]] + ([[["dir", "sealed", None]]] if service else [])
    return {"id": {"root": root, "ns": [], "short": short, "ver": list(ver), "port": port}, "allow": allow, "deps": [],
            "sections": secs, "tags": [], "ending": "nl", "api": "namespace", "decor": "plain"}


def boundaries(rng):
    out = []

    def add(case, tag, skeleton=False):
        case["tags"].append("boundary:" + tag)
        out.append(finish(rng, case))

    def with_field(t, tag):
        c = minimal()
        c["sections"][0].insert(0, ["field", t, "x"])
        c["ending"] = rng.choice(["nl", "none", "comment"])
        if c["ending"] != "nl":
            c["sections"][0] = [c["sections"][0][1], c["sections"][0][0]]  # the attribute is the last line
        add(c, tag)
        c = gen_skeleton(rng)
        _insert_attr(rng, c, ["field", t, _fresh(rng, c)])
        add(c, tag + ":in-skeleton")

    for w in (0, 1, 2, 63, 64, 65):
        for cast in ("sat", "trunc"):
            with_field(["s", ["uint", w, cast, False]], "uint%d" % w)
        with_field(["s", ["int", w, "sat", False]], "int%d" % w)
        with_field(["fix", ["int", w, "sat", True], 2], "int%d[]" % w)
        for c in (minimal(), gen_skeleton(rng, union=False, service=False)):
            c["sections"][0].insert(0, ["pad", w])
            add(c, "void%d" % w)
    for w in (15, 16, 17, 31, 32, 33, 63, 64, 65, 8, 128):
        with_field(["s", ["float", w, rng.choice(["sat", "trunc"]), False]], "float%d" % w)
    with_field(["s", ["int", 8, "trunc", True]], "truncated-int8")
    # every width once (a table-driven implementation can be wrong at any single width)
    for w in range(0, 71):
        for k in ("uint", "int", "float"):
            c = minimal()
            c["sections"][0].insert(0, ["field", _wrap(rng, [k, w, "sat", False]), "x"])
            add(c, "sweep:%s" % k)
        c = minimal()
        c["sections"][0].insert(0, ["pad", w])
        add(c, "sweep:void")
    for n in (0, 1, 2):
        for k in ("fix", "vari", "vare"):
            with_field([k, ["uint", 8, "sat", False], n], "capacity:%s:%d" % (k, n))
            with_field([k, ["byte"], n], "capacity:byte:%s:%d" % (k, n))
    for k, n in (("vari", 2 ** 64 - 1), ("vari", 2 ** 64), ("vare", 2 ** 64), ("vare", 2 ** 64 + 1), ("fix", 2 ** 64), ("fix", 2 ** 80)):
        c = minimal()
        c["sections"][0] = [["field", [k, ["uint", 8, "sat", False], n], "x"], ["dir", "extent", ["auto", 0]]]
        add(c, "capacity:%s:2^64%+d" % (k, n - 2 ** 64) if n < 2 ** 65 else "capacity:fix:2^80")
    for ver in ((0, 0), (0, 1), (1, 0), (255, 255), (255, 0), (0, 255), (256, 0), (0, 256), (255, 256), (256, 255)):
        for service in (False, True):
            add(minimal(ver=ver, service=service), "version:%d.%d" % ver)
        for refs in ("before", "after"):
            c = minimal(ver=ver)
            c["referrers"] = refs
            add(c, "version:%d.%d:referred" % ver)
        c = gen_skeleton(rng)
        c["id"]["ver"] = list(ver)
        add(c, "version:%d.%d:in-skeleton" % ver)
    for root in ("ns", "uavcan", "cyphal", "Uavcan", "uavcan_"):
        for service in (False, True):
            full = 511 if service else 8191
            std = root in STANDARD_ROOTS
            lo, hi = ((384, 511) if std else (256, 383)) if service else ((7168, 8191) if std else (6144, 7167))
            for p in sorted({0, 1, lo - 1, lo, lo + 1, hi - 1, hi, hi + 1, full - 1, full, full + 1}):
                for allow in (False, True):
                    for refs in (("none", "before", "after", "files-referrer") if not service else ("none",)):
                        c = minimal(root=root, service=service, port=p, allow=allow)
                        c["referrers"] = "before" if refs == "files-referrer" else refs
                        if refs == "files-referrer":
                            c["api"] = "files-referrer"
                        if refs != "none" and rng.random() < 0.5:
                            c["id"]["ns"] = ["zeta"]
                        add(c, "port:%s:%s:%d:%s%s" % ("std" if std else "vendor", "service" if service else "subject", p,
                                                        "allow" if allow else "regulated", "" if refs == "none" else ":referred"))
    for _ in range(12):
        for delta in (0, -8, 8, 1, -1, 4, "half"):
            c = gen_skeleton(rng)
            j = rng.randrange(len(c["sections"]))
            sec = c["sections"][j]
            sec[:] = [s for s in sec if not (s[0] == "dir" and s[1] in ("sealed", "extent"))]
            if delta == 0:
                sec.append(["dir", "extent", ["rat", 0, 1]])
                mx = section_max(c, sec)
                sec[-1][2] = ["rat", mx, 1]
            else:
                sec.append(["dir", "extent", ["auto", delta]])
            add(c, "extent:max%s" % ("+1/2" if delta == "half" else "%+d" % delta))
    for service, limit in ((False, 255), (True, 246)):
        for total in (limit - 1, limit, limit + 1):
            for _ in range(2):
                c = gen_skeleton(rng, service=service, with_deps=False)
                set_name_length(rng, c, total)
                add(c, "name-length:%s:%d" % ("service" if service else "message", total))
    for nvar in (0, 1, 2, 3):
        for service in (False, True):
            c = minimal(service=service)
            j = rng.randrange(len(c["sections"]))
            c["sections"][j] = [["dir", "union", None]] + [["field", ["s", ["uint", 8, "sat", False]], "v%d" % q] for q in range(nvar)] + [["dir", "sealed", None]]
            add(c, "union-variants:%d" % nvar)
    # one dependency, several users within one read: deprecated / not, sealed / delimited dependency, every way of use,
    # every processing order (the definition under test is named so that it sorts between the two sibling names)
    for dep_deprecated in (False, True):
        for dep_extent in (None, 64):
            for use in ("s", "fix", "vari", "vare"):
                for self_deprecated in (False, True):
                    for sib in ("none", "before", "after", "both"):
                        for where in ("message", "request", "response"):
                            if where != "message" and sib in ("none", "after") and use != "s":
                                continue
                            c = minimal(service=(where != "message"), short=rng.choice(["Beta", "M", "user"]))
                            d = {"root": "ns", "ns": [], "short": "Old", "ver": [1, 0], "deprecated": dep_deprecated, "service": False,
                                 "union": False, "fields": [["s", ["uint", 8, "sat", False]]], "extent": dep_extent, "lookup": False}
                            c["deps"] = [d]
                            r = ["ref", rng.choice([["Old"], ["ns", "Old"]]), 1, 0]
                            t = ["s", r] if use == "s" else [use, r, 3]
                            sec = [["field", t, "old"], ["dir", "sealed", None]]
                            c["sections"][1 if where == "response" else 0] = sec
                            if self_deprecated:
                                c["sections"][0].insert(0, ["dir", "deprecated", None])
                            c["siblings"] = sib
                            c["api"] = "namespace" if rng.random() < 0.8 else "files"
                            add(c, "shared-dependency:%s" % ("deprecated" if dep_deprecated else "plain"))
    # directive placement and duplication, systematically, in a message and in both sections of a service
    F = ["field", ["s", ["uint", 8, "sat", False]], "a"]
    G2 = ["field", ["s", ["uint", 8, "sat", False]], "b"]
    K = ["const", ["s", ["uint", 8, "sat", False]], "C", ["rat", 1, 1]]
    SE, EX, UN, DE = ["dir", "sealed", None], ["dir", "extent", ["rat", 64, 1]], ["dir", "union", None], ["dir", "deprecated", None]
    table = [
        ("none", []), ("none+field", [F]), ("sealed", [SE]), ("extent", [EX]), ("field,sealed", [F, SE]), ("sealed,field", [SE, F]),
        ("field,extent", [F, EX]), ("extent,field", [EX, F]), ("extent,const", [EX, K]), ("extent,pad", [EX, ["pad", 8]]),
        ("field,extent,field", [F, EX, G2]), ("extent,assert", [EX, ["dir", "assert", ["bool", True]]]), ("extent,print", [EX, ["dir", "print", None]]),
        ("sealed,sealed", [SE, SE]), ("sealed,extent", [SE, EX]), ("extent,sealed", [EX, SE]), ("extent,extent", [EX, EX]),
        ("sealed,field,sealed", [SE, F, SE]), ("field,sealed,extent", [F, SE, EX]),
        ("union,2", [UN, F, G2, SE]), ("2,union", [F, G2, UN, SE]), ("1,union,1", [F, UN, G2, SE]), ("union,union", [UN, UN, F, G2, SE]),
        ("union,2,union", [UN, F, G2, UN, SE]), ("sealed,union,2", [SE, UN, F, G2]), ("const,union", [K, UN, F, G2, SE]),
        ("union,const,2", [UN, K, F, G2, SE]), ("union,1,const", [UN, F, K, SE]), ("union,pad", [UN, F, G2, ["pad", 8], SE]),
        ("pad,union", [["pad", 8], UN, F, G2, SE]), ("union,extent,field", [UN, F, G2, EX, ["field", ["s", ["bool"]], "c"]]),
        ("deprecated", [DE, SE]), ("sealed,deprecated", [SE, DE]), ("field,deprecated", [F, DE, SE]), ("const,deprecated", [K, DE, SE]),
        ("pad,deprecated", [["pad", 1], DE, SE]), ("deprecated,deprecated", [DE, DE, SE]), ("deprecated,field,deprecated", [DE, F, DE, SE]),
        ("union,deprecated", [UN, DE, F, G2, SE]), ("deprecated,union", [DE, UN, F, G2, SE]), ("assert,deprecated", [["dir", "assert", ["bool", True]], DE, SE]),
        ("assert-true", [["dir", "assert", ["bool", True]], SE]), ("assert-false", [["dir", "assert", ["bool", False]], SE]),
        ("assert-none", [["dir", "assert", None], SE]), ("assert-int", [["dir", "assert", ["rat", 1, 1]], SE]),
        ("assert-zero", [["dir", "assert", ["rat", 0, 1]], SE]), ("assert-str", [SE, ["dir", "assert", ["str", "true"]]]),
        ("assert-set", [SE, ["dir", "assert", ["set"]]]), ("sealed-expr", [["dir", "sealed", ["bool", True]]]),
        ("union-expr", [["dir", "union", ["rat", 2, 1]], F, G2, SE]), ("deprecated-expr", [["dir", "deprecated", ["bool", True]], SE]),
        ("extent-none", [F, ["dir", "extent", None]]), ("extent-bool", [F, ["dir", "extent", ["bool", True]]]),
        ("extent-str", [F, ["dir", "extent", ["str", "64"]]]), ("extent-frac", [F, ["dir", "extent", ["rat", 129, 2]]]),
        ("extent-frac-int", [F, ["dir", "extent", ["rat", 128, 2]]]), ("extent-div0", [F, ["dir", "extent", ["rat", 64, 0]]]),
        ("print-div0", [SE, ["dir", "print", ["rat", 1, 0]]]), ("print-any", [SE, ["dir", "print", ["set"]], ["dir", "print", None]]),
        ("unknown", [SE, ["dir", "sealedd", None]]), ("unknown-case", [["dir", "Sealed", None]]),
        ("case-variant-names", [F, ["field", ["s", ["bool"]], "A"], SE]), ("same-names", [F, ["field", ["s", ["bool"]], "a"], SE]),
        ("field-const-same", [F, ["const", ["s", ["bool"]], "a", ["bool", True]], SE]),
        ("field-const-case", [F, ["const", ["s", ["bool"]], "A", ["bool", True]], SE]),
    ]
    for tag, sec in table:
        for where in ("message", "request", "response"):
            for other_deprecated in ((False, True) if where == "response" else (False,)):
                c = minimal(service=(where != "message"))
                c["ending"] = rng.choice(["nl", "none", "comment"])
                c["sections"][1 if where == "response" else 0] = copy.deepcopy(sec)
                if other_deprecated:
                    c["sections"][0].insert(0, ["dir", "deprecated", None])
                add(c, "directives:" + where)
    # names: every reserved word and pattern, and the near misses, as attribute name and as type name
    for n in RESERVED_WORDS + RESERVED_PATTERNED + NEAR_MISSES + BAD_SYNTAX + BAD_TYPE_NAMES:
        for spelled in sorted({n, n.upper(), rand_case(rng, n)}):
            if n not in BAD_TYPE_NAMES:
                c = minimal()
                c["sections"][0].insert(0, ["field", ["s", ["bool"]], spelled])
                add(c, "attr-name")
            if "." not in spelled and "/" not in spelled:
                where = rng.choice(["short", "ns", "root"])
                c = minimal(short=spelled) if where == "short" else minimal(root=spelled) if where == "root" else minimal()
                if where == "ns":
                    c["id"]["ns"] = [spelled]
                add(c, "type-name:" + where)
    return out


# ----------------------------------------------------------------------------------------------------------------
# interface of the harness


def generate(rng, tier):
    cases = boundaries(rng)
    streams = ["targeted"] * len(cases)
    n_random = 3200 if tier == "quick" else 40000
    # the 16-combination grid of valid skeletons first
    for service in (False, True):
        for union in (False, True):
            for with_deps in (False, True):
                for deprecated in (False, True):
                    for _ in range(3 if tier == "quick" else 30):
                        cases.append(finish(rng, gen_skeleton(rng, service=service, union=union, with_deps=with_deps, deprecated=deprecated)))
                        streams.append("random")
    for k in range(n_random):
        r = rng.random()
        nviol = 0 if r < 0.2 else 1 if r < 0.75 else 2
        if nviol == 1 and k < 60 * len(INJECTORS):
            c = gen_planted(rng, 1, [INJECTORS[k % len(INJECTORS)]])  # every category gets its share
        else:
            c = gen_planted(rng, nviol)
        cases.append(c)
        streams.append("random")
    for _ in range(900 if tier == "quick" else 12000):
        cases.append(gen_soup(rng))
        streams.append("hostile")
    return cases, streams


def nontrivial(case, obs):
    return sum(len(s) for s in case["sections"]) >= 2


def describe(case, obs):
    v = "accepted" if obs["verdict"] == "accept" else "rejected" if obs["verdict"] == "InvalidDefinition" else "other:" + obs["verdict"]
    tags = case["tags"]
    planted = [t for t in tags if not t.startswith("boundary:") and t not in ("soup", "shuffle")]
    keys = ["verdict:" + v, "api:" + case["api"], "referrers:" + case.get("referrers", "none"), "siblings:" + case.get("siblings", "none"),
            "flag:" + ("default(omitted)" if (not case["allow"] and case.get("default_flag")) else "explicit-%s" % case["allow"]), "ending:" + case["ending"], "decor:" + case.get("decor", "plain"), "allow_unregulated:%s" % case["allow"],
            "kind:%s" % ("service" if len(case["sections"]) == 2 else "message" if len(case["sections"]) == 1 else "3+sections"),
            "deps:%d" % min(len(case["deps"]), 3)]
    if not tags:
        keys.append("planted=0:" + v)
    elif tags == ["shuffle"]:
        keys.append("shuffle-only:" + v)
    for t in tags:
        if t == "soup":
            keys.append("soup:" + v)
        elif t.startswith("boundary:"):
            keys.append("boundary:" + t.split(":")[1] + ":" + v)
        else:
            keys.append("planted:" + t.split(":")[0] + ":" + v)
    if planted:
        keys.append("planted=%d:%s" % (len(planted), v))
    for sec in case["sections"]:
        keys.append("section:%s:%s" % ("union" if _is_union(sec) else "struct",
                                         "delimited" if any(s[0] == "dir" and s[1] == "extent" for s in sec) else "sealed"))
    if is_deprecated(case):
        keys.append("deprecated-definition")
    if any(d["deprecated"] for d in case["deps"]):
        keys.append("deprecated-dependency")
    if "pred_fail" in obs:
        keys.append("pred_fail")
    return keys


def shrink(case):
    # drop one dependency-free statement / one section / one unused dependency at a time
    for j, sec in enumerate(case["sections"]):
        for k in range(len(sec)):
            c = copy.deepcopy(case)
            del c["sections"][j][k]
            yield c
    if len(case["sections"]) > 1:
        c = copy.deepcopy(case)
        c["sections"].pop()
        yield c
    for k in range(len(case["deps"])):
        c = copy.deepcopy(case)
        del c["deps"][k]
        yield c
    if case["id"]["ns"]:
        c = copy.deepcopy(case)
        c["id"]["ns"] = []
        c["deps"] = [d for d in c["deps"] if d["lookup"]]
        yield c


RULE = ("a case is one definition in abstract form (identity, statements per section, dependencies) rendered to DSDL text, written "
        "with its dependencies into a scratch root namespace (plus lookup namespaces) and read with read_namespace (80 %) or "
        "read_files (20 %), allow_unregulated_fixed_port_id both ways (when False, the keyword is omitted for half of the cases so that "
        "the documented default is under test); a third of the message definitions are accompanied by valid "
        "definitions of the same namespace that refer to them and are processed before and/or after them (or are the only file given to "
        "read_files), so that a violating definition must be rejected whatever the processing order; 60 % of the definitions with dependencies are "
        "accompanied by valid sibling definitions that use the same dependencies (directly and through arrays) and are processed "
        "before and/or after them, so that one dependency object has several users with differing deprecation status within one read; streams: boundary neighbours of every numeric rule and every "
        "reserved name/pattern with near misses (targeted), the grid message/service x structure/union x deps x deprecated of valid "
        "skeletons, and skeletons with 0, 1 or 2 planted violations out of 23 categories (plus random permutations of a section) at random positions (random), and statement soups without any skeleton (hostile); "
        "non-trivial = at least two statements; distinct = by hash of the case")
THEOREMS_NOTE = ("C05_iff: accept env d = true <-> Valid env d (C05_handlers: the statement handlers succeed iff the positional rules hold; "
                 "C05_names: name_ok = identifier syntax minus the reserved set; C05_boundaries_*: the verdict at every numeric boundary; "
                 "C05_extent_rule: the extent rule bounds every serialized length); the comparer checks implementation verdict = accept "
                 "and that every rejection is an InvalidDefinitionError")
TRUSTED = ["the renderer abstract definition -> DSDL text in harness/props/c05.py (one statement per line) and the PEG grammar are exercised, not modelled",
           "expression evaluation is abstracted to the value class of literals (bool, n/d, string, set); C04/C13 cover the evaluator"]
ASSUMPTIONS = ["dependencies are valid leaf definitions (primitives and arrays only) with pairwise case-insensitively distinct names",
               "a union has fewer than 2**64 variants (the tag-width check of UnionType is not modelled; no text can violate it)",
               "file names are rendered canonically (decimal numbers without leading zeros); file-name parsing is C15"]
EXPLANATION = ("the theorem proves that the replay of the code's checks (accept) is equivalent to the declarative conjunction of the static rules "
               "(Valid) for all definitions of the abstract syntax; the correspondence compares the implementation's verdict with accept on "
               "generated definitions with planted violations and all boundary neighbours")
LEVEL_TEXT = ("Machine-checked theorems (Coq, closed under the global context) state that the model of the acceptance pipeline (type constructors, "
              "attribute constructors, directive handlers in statement order, composite constructors, finalize) accepts a definition iff the "
              "declarative rules hold, that name_ok is exactly identifier syntax minus the reserved set, and the verdict at every numeric boundary. "
              "The model is tied to /repo by comparing, inside Coq, the implementation's accept / InvalidDefinitionError verdict on generated definitions.")
LEVEL_NOTE = ("Trusted: Coq kernel + vm_compute; the hand-written model corresponds to pydsdl only as far as the sampled correspondence shows; "
              "the PEG grammar and expression evaluator are exercised through the implementation side only.")
TECHNIQUE = "Coq proof (reflection of a sequential checker against a positional declarative specification) + vm_compute correspondence"
