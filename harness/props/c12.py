"""C12 - constants are compliant with their declared type: generator, implementation runner, emitter.

Also hosts the helpers shared with c04/c13 (value <-> JSON <-> Gallina <-> DSDL text)."""
import os
from fractions import Fraction
import gallina as G

ID = "C12"
PROPS_FILE = "Props/C12.v"
COQ_IMPORTS = "From Coq Require Import QArith.\nFrom PV Require Import Expr.Values Const.Model Check.C12.\nOpen Scope Z_scope."
CASE_TYPE = "C12.case"
CHECK_FN = "C12.check_case"
SHARD = 700
RULE = ("a case is one (constant type, initialiser value, channel) triple, optionally preceded in the same process by priming "
        "constants (an ASCII character and its canonically equivalent non-ASCII look-alikes, both orders) whose outcomes are "
        "not compared: the outcome of the case must not depend on them; channel 'ctor' calls pydsdl.Constant(type, 'X', value) "
        "on expression objects, channel 'text' writes ns/T.1.0.dsdl = '<type> X = <initialiser>' and reads it with read_namespace; "
        "observable: Constant.value.native_value (numerator/denominator or bool) and the declared type, or the rejection class; "
        "non-trivial = the value is a rational within 1 of a range boundary of the type, or a string/boolean/set offered to an "
        "arithmetic type; distinct = by hash of the canonical case")
THEOREMS_NOTE = ("C12_accept_iff makes the model's verdict the only one the rules allow; C12_int_ranges/C12_float_ranges fix the "
                 "boundaries; C12_exact: the stored value is the initialiser itself")
TRUSTED = ["the text channel relies on the expression evaluator for n/d and unary minus (property C04)",
           "Python str.encode('utf8') is modelled by the UTF-8 length table and the surrogate range"]
ASSUMPTIONS = ["the model covers Constant.__init__ and the construction of primitive type objects; names and doc comments are fixed ('X', none)"]
EXPLANATION = ("theorems quantify over all widths, cast modes and values; the correspondence is exhaustive over type kind x width x "
               "cast mode x a boundary value list (both channels) plus random rationals")
LEVEL_TEXT = ("Machine-checked theorems (Coq, closed under the global context): the value ranges computed the way the code computes "
              "them are the textbook integer ranges and the largest finite IEEE 754 values; a constant is accepted iff the "
              "declarative rule set holds; accepted values are compliant and stored unchanged; only bool/integer/float types "
              "carry constants. The model is tied to /repo by an exhaustive boundary sweep through two channels.")
LEVEL_NOTE = "Trusted: Coq kernel + vm_compute; the hand-written model corresponds to Constant.__init__ as far as the sweep shows."
TECHNIQUE = "Coq proof (case analysis + integer/rational arithmetic) + exhaustive vm_compute correspondence"

# ----------------------------------------------------------------------------------------------------------------
# shared helpers: values


def vr(x):
    x = Fraction(x)
    return {"r": [x.numerator, x.denominator]}


def vb(x):
    return {"b": bool(x)}


def vs(s):
    return {"s": [ord(c) for c in s] if isinstance(s, str) else list(s)}


def vset(items):
    return {"set": list(items)}


def emit_value(v):
    if "r" in v:
        n, d = v["r"]
        return "(VRat (Qmake %s %d%%positive))" % (G.z(n), d)
    if "b" in v:
        return "(VBool %s)" % G.b(v["b"])
    if "s" in v:
        return "(VStr %s)" % G.zlist(v["s"])
    if "set" in v:
        return "(VSet %s)" % G.lst([emit_value(x) for x in v["set"]])
    raise ValueError(v)


def render_rat(n, d):
    if d == 1:
        return str(n) if n >= 0 else "-%d" % -n
    return ("%d/%d" % (n, d)) if n >= 0 else "-%d/%d" % (-n, d)


def render_str(cps, raw_ok=False):
    out = ["'"]
    for c in cps:
        ch = chr(c)
        if 32 <= c < 127 and ch not in "'\\":
            out.append(ch)
        elif raw_ok and c >= 160 and not 0xD800 <= c <= 0xDFFF:
            out.append(ch)
        elif c <= 0xFFFF:
            out.append("\\u%04x" % c)
        else:
            out.append("\\U%08x" % c)
    out.append("'")
    return "".join(out)


def render_value(v, raw_ok=False):
    if "r" in v:
        return render_rat(*v["r"])
    if "b" in v:
        return "true" if v["b"] else "false"
    if "s" in v:
        return render_str(v["s"], raw_ok)
    if "set" in v:
        return "{" + ", ".join(render_value(x, raw_ok) for x in v["set"]) + "}"
    raise ValueError(v)


def native_to_json(x):
    """pydsdl expression object -> canonical JSON value (sets sorted by their canonical JSON text)."""
    import json
    import pydsdl
    if isinstance(x, pydsdl.Rational):
        f = x.native_value
        return {"r": [f.numerator, f.denominator]}
    if isinstance(x, pydsdl.Boolean):
        return {"b": bool(x.native_value)}
    if isinstance(x, pydsdl.String):
        return {"s": [ord(c) for c in x.native_value]}
    if isinstance(x, pydsdl.Set):
        items = [native_to_json(e) for e in x]
        items.sort(key=lambda j: json.dumps(j, sort_keys=True))
        return {"set": items}
    raise ValueError(type(x).__name__)


def json_to_native(v):
    import pydsdl
    if "r" in v:
        return pydsdl.Rational(Fraction(v["r"][0], v["r"][1]))
    if "b" in v:
        return pydsdl.Boolean(v["b"])
    if "s" in v:
        return pydsdl.String("".join(chr(c) for c in v["s"]))
    if "set" in v:
        return pydsdl.Set([json_to_native(x) for x in v["set"]])
    raise ValueError(v)


def classify(ex):
    import pydsdl
    if isinstance(ex, pydsdl.InvalidDefinitionError):
        return "CInvalidDefinition"
    if isinstance(ex, pydsdl.InternalError):
        return "CInternal"
    if isinstance(ex, ValueError):
        return "CValueError"
    if isinstance(ex, TypeError):
        return "CTypeError"
    return "COther"


# ----------------------------------------------------------------------------------------------------------------
# shared helpers: constant types


def type_text(t):
    k = t[0]
    if k == "bool":
        return "bool"
    if k in ("byte", "utf8"):
        return k
    if k in ("uint", "int", "float"):
        mode = {0: "", 1: "truncated ", 2: "saturated "}[t[2]]
        return "%s%s%d" % (mode, k, t[1])
    if k == "void":
        return "void%d" % t[1]
    if k == "array":
        return "uint8[2]"
    raise ValueError(t)


def emit_type(t):
    k = t[0]
    if k == "bool":
        return "TBool"
    if k == "byte":
        return "TByte"
    if k == "utf8":
        return "TUtf8"
    if k in ("uint", "int", "float"):
        return "(%s %s %s)" % ({"uint": "TUInt", "int": "TSInt", "float": "TFloat"}[k], G.z(t[1]), G.b(t[2] == 1))
    return "TNonPrim"


def type_ok(t):
    k = t[0]
    if k == "uint":
        return 1 <= t[1] <= 64
    if k == "int":
        return 2 <= t[1] <= 64 and t[2] != 1
    if k == "float":
        return t[1] in (16, 32, 64)
    return True


def make_type(t):
    import pydsdl
    k = t[0]
    cm = pydsdl.PrimitiveType.CastMode.TRUNCATED if len(t) > 2 and t[2] == 1 else pydsdl.PrimitiveType.CastMode.SATURATED
    if k == "bool":
        return pydsdl.BooleanType()
    if k == "byte":
        return pydsdl.ByteType()
    if k == "utf8":
        return pydsdl.UTF8Type()
    if k == "uint":
        return pydsdl.UnsignedIntegerType(t[1], cm)
    if k == "int":
        return pydsdl.SignedIntegerType(t[1], cm)
    if k == "float":
        return pydsdl.FloatType(t[1], cm)
    if k == "void":
        return pydsdl.VoidType(t[1])
    if k == "array":
        return pydsdl.FixedLengthArrayType(pydsdl.UnsignedIntegerType(8, pydsdl.PrimitiveType.CastMode.SATURATED), 2)
    raise ValueError(t)


def type_range(t):
    """Reference ranges for steering the generator only (never part of a verdict)."""
    k = t[0]
    if k == "uint":
        return 0, 2 ** t[1] - 1
    if k in ("byte", "utf8"):
        return 0, 255
    if k == "int":
        return -2 ** (t[1] - 1), 2 ** (t[1] - 1) - 1
    if k == "float":
        m = {16: (2 ** 11 - 1) * 2 ** 5, 32: (2 ** 24 - 1) * 2 ** 104, 64: (2 ** 53 - 1) * 2 ** 971}.get(t[1])
        return (-m, m) if m else (None, None)
    return None, None


# ----------------------------------------------------------------------------------------------------------------
# generator

STRINGS = ["", "a", "ab", "\x00", "\x7f", "\x80", "\xe9", "€", "\U0001f600", "0", "'", "\\", "\n",
           [0xD800], [0xDFFF], [0xDBFF], [97, 0xD800], [0xE000], [0xD7FF], [0x7FF], [0x800], [0xFFFF], [0x10000], [0x10FFFF]]


def all_types():
    ts = [["bool"], ["byte"], ["utf8"], ["void", 8], ["array"]]
    for w in range(1, 65):
        for m in (0, 1, 2):
            ts.append(["uint", w, m])
    for w in range(1, 65):
        ts.append(["int", w, 0])
        if w in (1, 2, 8, 16, 63, 64):
            ts.append(["int", w, 1])  # invalid cast mode
            ts.append(["int", w, 2])
    for w in (16, 32, 64):
        for m in (0, 1, 2):
            ts.append(["float", w, m])
    for w in (1, 8, 15, 17, 31, 33, 63, 65, 128):
        ts.append(["float", w, 0])
    for w in (65, 66, 100, 128):
        ts.append(["uint", w, 0])
        ts.append(["int", w, 0])
    return ts


def boundary_values(t):
    lo, hi = type_range(t)
    vals = []
    if lo is not None:
        for b in (lo, hi):
            for d in (-1, 0, 1):
                vals.append(vr(b + d))
            vals.append(vr(Fraction(2 * b + 1, 2)))
            vals.append(vr(Fraction(2 * b - 1, 2)))
            vals.append(vr(Fraction(3 * b + 1, 3)))
            vals.append(vr(b + Fraction(1, 10 ** 30)))
            vals.append(vr(b - Fraction(1, 10 ** 30)))
        vals += [vr(hi // 2), vr(2 * hi), vr(2 * lo - 1)]
    vals += [vr(-1), vr(0), vr(1), vr(Fraction(1, 2)), vr(Fraction(-1, 3)), vr(2), vr(255), vr(256), vr(97)]
    return vals


def other_values():
    vals = [vs(s) for s in STRINGS]
    vals += [vb(True), vb(False), vset([vr(1)]), vset([vb(True)]), vset([vs("a")]), vset([vr(0), vr(1)])]
    return vals


def lookalikes():
    """Code points >= 128 whose NFC/NFKC form is one ASCII character (canonical singletons such as KELVIN SIGN, and a few
    compatibility look-alikes as controls), each with that ASCII twin."""
    import unicodedata as u
    out = []
    for cp in range(128, 0x110000):
        if 0xD800 <= cp <= 0xDFFF:
            continue
        n = u.normalize("NFC", chr(cp))
        if len(n) == 1 and ord(n) < 128:
            out.append((cp, ord(n)))
    for cp in (0xFF21, 0xFF2B, 0xFF1B, 0x2160, 0x2170, 0xFF40, 0x1D40A):  # compatibility only: NFC leaves them alone
        n = u.normalize("NFKC", chr(cp))
        if len(n) == 1 and ord(n) < 128:
            out.append((cp, ord(n)))
    for cp, twin in ((0x2126, 0x3A9), (0x212B, 0xC5), (0x0340, 0x300)):  # canonical singletons to non-ASCII: controls
        out.append((cp, twin))
    return out


def generate(rng, tier):
    cases, streams = [], []
    seen = set()

    def add(t, v, ch, stream, raw=False):
        c = {"t": t, "v": v, "ch": ch}
        if raw:
            c["raw"] = True
        key = repr(c)
        if key in seen:
            return
        seen.add(key)
        cases.append(c)
        streams.append(stream)

    types = all_types()
    for t in types:
        heavy = t[0] not in ("uint", "int") or t[1] in (1, 2, 7, 8, 9, 16, 31, 32, 33, 53, 63, 64) or tier != "quick"
        for v in boundary_values(t):
            if type_ok(t):
                add(t, v, "ctor", "targeted")
            add(t, v, "text", "targeted")
        for v in other_values():
            if type_ok(t) and (heavy or "s" in v):
                add(t, v, "ctor", "targeted")
            if heavy or rng.random() < 0.25:
                add(t, v, "text", "targeted")
                if "s" in v and any(c >= 160 for c in v["s"]) and not any(0xD800 <= c <= 0xDFFF for c in v["s"]):
                    add(t, v, "text", "targeted", raw=True)
    # history: a canonically equivalent look-alike offered after (or before) its ASCII twin in the same process
    for la, twin in lookalikes():
        for t in (["uint", 8, 0], ["uint", 8, 1], ["uint", 8, 2], ["byte"], ["utf8"], ["int", 8, 0], ["uint", 16, 0], ["uint", 7, 0], ["float", 32, 0], ["bool"]):
            for ch in ("ctor", "text"):
                if ch == "ctor" and not type_ok(t):
                    continue
                for value, prime in ((la, twin), (twin, la), (la, la), (twin, twin), (la, None)):
                    c = {"t": t, "v": vs([value]), "ch": ch, "prime": [{"t": pt, "v": vs([prime]), "ch": pc} for pt in (t, ["uint", 8, 0]) for pc in ("ctor", "text")] if prime is not None else []}
                    cases.append(c)
                    streams.append("targeted")
    n = 1500 if tier == "quick" else 30000
    valid = [t for t in types if type_ok(t)]
    for _ in range(n):
        t = rng.choice(valid)
        lo, hi = type_range(t)
        r = rng.random()
        if lo is None or r < 0.1:
            v = rng.choice(other_values())
        elif r < 0.5:
            v = vr(rng.randint(2 * lo - 2, 2 * hi + 2))
        elif r < 0.75:
            d = rng.choice([2, 3, 7, 10, 2 ** 20, 10 ** 9])
            v = vr(Fraction(rng.randint(2 * lo * d, 2 * hi * d), d))
        else:
            b = rng.choice([lo, hi])
            d = rng.choice([1, 1, 2, 3, 1000, 2 ** 64])
            v = vr(b + Fraction(rng.randint(-3, 3), d))
        add(t, v, rng.choice(["ctor", "text"]), "random")
    return cases, streams


# ----------------------------------------------------------------------------------------------------------------
# implementation side


def scratch_ns(tag):
    root = os.path.join(os.environ["VERIF_SCRATCH"], "%s_%d" % (tag, os.getpid()))
    ns = os.path.join(root, "ns")
    os.makedirs(ns, exist_ok=True)
    return root, ns


def run_impl(cases):
    import shutil
    import pydsdl
    root, ns = scratch_ns("c12")
    path = os.path.join(ns, "T.1.0.dsdl")
    real = os.path.realpath(path)

    def one(c):
        t, v = c["t"], c["v"]
        try:
            if c["ch"] == "ctor":
                ty = make_type(t)
                k = pydsdl.Constant(ty, "X", json_to_native(v))
            else:
                text = "%s X = %s\n@sealed\n" % (type_text(t), render_value(v, raw_ok=c.get("raw", False)))
                with open(path, "w", encoding="utf8") as f:
                    f.write(text)
                try:
                    (comp,) = pydsdl.read_namespace(ns, [])
                except pydsdl.InvalidDefinitionError as ex:
                    if ex.path is None or os.path.realpath(str(ex.path)) != real:
                        return {"rej": "CInvalidDefinition", "pred_fail": "error path %r is not the definition file" % (str(ex.path),)}
                    raise
                (k,) = comp.constants
                ty = make_type(t)
            o = native_to_json(k.value)
            if "r" in o:
                obs = {"acc": o["r"]}
            elif "b" in o:
                obs = {"accb": o["b"]}
            else:
                obs = {"rej": "COther", "pred_fail": "constant holds a %s" % type(k.value).__name__}
            if k.data_type != ty or type(k.data_type) is not type(ty):
                obs["pred_fail"] = "declared type changed: %s" % k.data_type
            return obs
        except Exception as ex:  # pylint: disable=broad-except
            return {"rej": classify(ex)}

    out = []
    for c in cases:
        for p in c.get("prime", []):  # history only: the outcomes of the priming constants are not part of this case
            if p["ch"] == "text" or type_ok(p["t"]):
                one(p)
        out.append(one(c))
    shutil.rmtree(root, ignore_errors=True)
    return out


# ----------------------------------------------------------------------------------------------------------------
# emission


def emit(case, obs):
    if "acc" in obs:
        o = "(C12.OAccRat %s %d%%positive)" % (G.z(obs["acc"][0]), obs["acc"][1])
    elif "accb" in obs:
        o = "(C12.OAccBool %s)" % G.b(obs["accb"])
    else:
        o = "(C12.ORej %s)" % obs["rej"]
    return "(%s, %s, %s, %s)" % ("C12.ViaCtor" if case["ch"] == "ctor" else "C12.ViaText", emit_type(case["t"]), emit_value(case["v"]), o)


def model_eval(case, obs):
    return "Eval vm_compute in (map (fun c => match c with (ch, t, v, _) => C12.model ch t v end) cases).\n"


def nontrivial(case, obs):
    t, v = case["t"], case["v"]
    lo, hi = type_range(t)
    if "r" in v and lo is not None:
        x = Fraction(*v["r"])
        return min(abs(x - lo), abs(x - hi)) <= 1
    return t[0] in ("uint", "int", "float", "byte", "utf8") and "r" not in v


def describe(case, obs):
    t, v = case["t"], case["v"]
    keys = ["chan:" + case["ch"], "type:" + t[0] + ("" if type_ok(t) else ":invalid")]
    if "prime" in case:
        keys.append("history:primed" if case["prime"] else "history:none")
    keys.append("value:" + next(iter(k for k in ("r", "b", "s", "set") if k in v)))
    keys.append("impl:" + ("accepted" if "rej" not in obs else obs["rej"]))
    lo, hi = type_range(t)
    if "r" in v and lo is not None:
        x = Fraction(*v["r"])
        keys.append("pos:" + ("below" if x < lo else "above" if x > hi else "at-boundary" if x in (lo, hi) else "inside"))
    return keys


def shrink(case):
    v = case["v"]
    if case["ch"] == "text":
        yield dict(case, ch="ctor")
    if "r" in v:
        n, d = v["r"]
        if d != 1:
            yield dict(case, v=vr(n // d))
