"""C02 - layout of every type: generator, implementation runner, emitter."""
import os
import gallina as G
import tygen
from props import c01

ID = "C02"
PROPS_FILE = "Props/C02.v"
COQ_IMPORTS = "From PV Require Import Util.ListSet BLS.Model Layout.Types Check.C02."
CASE_TYPE = "C02.case"
CHECK_FN = "C02.check_case"
SHARD = 120
RULE = ("a case is one random or targeted type expression (primitives of every width, voids, fixed/variable arrays incl. byte/utf8, "
        "structures, unions, delimited wrappers, nested to depth <= 4/6) built through the pydsdl constructors or, for 1 in 4 cases, "
        "written as DSDL files and read with read_namespace; EVERY node of the type tree is observed (alignment_requirement, "
        "bit_length_set.min/max, residues for 5 divisors out of 1..16,24,32,64, numeric expansion when small, extent, "
        "length-prefix / tag / delimiter-header width); non-trivial = the type has >= 3 nodes and contains an array or composite; "
        "distinct by hash of the canonical case. Targeted: every primitive width, every prefix boundary +-1, unions of "
        "2/3/255/256/257 variants, extents at and around the minimum, field permutations mixing sub-byte and composite fields, "
        "inadmissible parameters (must be rejected)")
THEOREMS_NOTE = "C02_spec makes the model's set the Specification's set; C02_prefix_width/C02_tag_width/C02_delimited/C02_sealed_extent fix the remaining observables"
TRUSTED = ["math.log2/ceil on small integers and int.bit_length are exercised through the implementation only",
           "LenSpec / spec_prefix / spec_tag are my transcription of the Cyphal Specification's layout rules (not available offline)"]
ASSUMPTIONS = ["residue queries whose predicted enumeration cost exceeds the tier budget are not generated (cost guard; see C16 for the cost property)"]
EXPLANATION = "theorems quantify over all type expressions; the correspondence compares every layout observable of the implementation with the proven model"
LEVEL_TEXT = ("Coq theorems: for every well-formed type expression the operator tree built by the model (exactly as the constructors build it) "
              "denotes the Specification's set of lengths (LenSpec, written positionally without operator trees), every length is a multiple "
              "of the alignment, composites are byte aligned, prefix/tag widths are the smallest of 8/16/32/64 that fit, a sealed composite's "
              "extent is its longest representation, a delimited composite's set is 32 + {0,8,..,extent}; together with C01 this makes the "
              "model's min/max/residues the only admissible ones. Correspondence: all layout observables of every node of generated types "
              "are compared inside Coq with the model.")
LEVEL_NOTE = "Trusted: Coq kernel + vm_compute; LenSpec is a transcription of the Specification; the model corresponds to _serializable/*.py as far as sampled."
TECHNIQUE = "Coq proof by induction over the type AST (on top of the C01 set algebra theorems); vm_compute correspondence"

MODS = list(range(1, 17)) + [24, 32, 64]


def plan_queries(rng, t, tier):
    """Choose, per node, divisors and whether to expand - under the cost guard."""
    budget = 2e5 if tier == "quick" else 1e6
    divs = sorted(set([8, 32, 64] + [rng.choice(MODS) for _ in range(3)]))
    plan = []
    spent = [0, 0]
    for n in tygen.subtypes(t):
        op = tygen.to_op(n)
        ds = []
        for d in divs:
            c = [0, 0]
            c01.ref_mod(op, d, c)
            if spent[0] + c[0] <= budget and spent[1] + c[1] <= 40 * budget:
                spent[0] += c[0]
                spent[1] += c[1]
                ds.append(d)
        exp = False
        if rng.random() < 0.3:
            c = [0, 0]
            s = c01.ref_expand(op, 600, c)
            if s is not None:
                tot = [c[0], 0]
                for sub in c01.postorder(op):
                    for d in range(1, 65):
                        c01.ref_mod(sub, d, tot)
                        if tot[0] > budget:
                            break
                if spent[0] + tot[0] <= budget and spent[1] + tot[1] <= 40 * budget:
                    spent[0] += tot[0]
                    spent[1] += tot[1]
                    exp = True
        plan.append({"mods": ds, "exp": exp})
    return plan


def mk_case(rng, t, tier, via="ctor"):
    return {"type": t, "plan": plan_queries(rng, t, tier), "via": via}


def targeted(rng, tier):
    out = []
    names = tygen.NameGen()
    u8 = {"k": "prim", "p": "uint", "w": 8, "c": "sat"}
    # every primitive width
    for w in range(1, 65):
        out.append({"k": "prim", "p": "uint", "w": w, "c": "trunc"})
        if w >= 2:
            out.append({"k": "prim", "p": "int", "w": w, "c": "sat"})
        out.append({"k": "void", "w": w})
    for w in (16, 32, 64):
        out.append({"k": "prim", "p": "float", "w": w, "c": "sat"})
    # inadmissible parameters: must be rejected
    out += [{"k": "prim", "p": "uint", "w": 0, "c": "sat"}, {"k": "prim", "p": "uint", "w": 65, "c": "sat"},
            {"k": "prim", "p": "int", "w": 1, "c": "sat"}, {"k": "prim", "p": "float", "w": 8, "c": "sat"},
            {"k": "prim", "p": "float", "w": 24, "c": "sat"}, {"k": "void", "w": 0}, {"k": "void", "w": 65},
            {"k": "fix", "e": u8, "n": 0}, {"k": "var", "e": u8, "n": 0}, {"k": "var", "e": u8, "n": 2 ** 64}, {"k": "var", "e": u8, "n": 2 ** 70}]
    # prefix boundaries, several element shapes
    elems = [u8, {"k": "prim", "p": "bool"}, {"k": "prim", "p": "uint", "w": 3, "c": "sat"}, {"k": "prim", "p": "byte"}]
    for cap in [1, 2, 127, 128, 254, 255, 256, 257, 65534, 65535, 65536, 65537, 2 ** 32 - 2, 2 ** 32 - 1, 2 ** 32, 2 ** 32 + 1, 2 ** 63, 2 ** 64 - 1]:
        for e in elems:
            out.append({"k": "var", "e": e, "n": cap})
        out.append({"k": "fix", "e": u8, "n": cap})
        inner = {"k": "struct", "name": names.fresh(), "ver": [1, 0], "fs": [["a", {"k": "var", "e": {"k": "prim", "p": "uint", "w": 5, "c": "sat"}, "n": 3}]]}
        out.append({"k": "var", "e": inner, "n": cap})
    out.append({"k": "var", "e": {"k": "prim", "p": "utf8"}, "n": 300})
    # unions at the tag boundaries
    for nv in [2, 3, 4, 255, 256, 257]:
        out.append({"k": "union", "name": names.fresh(), "ver": [1, 0],
                    "fs": [["v%d" % i, u8 if i % 2 else {"k": "prim", "p": "uint", "w": 1 + i % 17, "c": "sat"}] for i in range(nv)]})
    # the 16-bit tag boundary needs 2**16 variants (emitted to Coq as a generated term; members are not observed one by one)
    u16 = {"k": "prim", "p": "uint", "w": 16, "c": "sat"}
    for nv in [65535, 65536, 65537]:
        out.append({"k": "union", "name": names.fresh(), "ver": [1, 0], "fs": [["v%d" % i, u8 if i % 2 == 0 else u16] for i in range(nv)]})
    out.append({"k": "union", "name": names.fresh(), "ver": [1, 0], "fs": [["only", u8]]})  # rejected: one variant
    # constants are attributes but not variants: they must not influence the tag width
    for nv, nc in [(200, 100), (255, 2), (256, 1), (3, 300), (2, 1)]:
        out.append({"k": "union", "name": names.fresh(), "ver": [1, 0], "consts": nc, "fs": [["v%d" % i, u8] for i in range(nv)]})
    # arrays of arrays (API only): a fixed array of a fixed array of something variable
    vv = {"k": "var", "e": u8, "n": 2}
    out.append({"k": "fix", "e": {"k": "fix", "e": vv, "n": 2}, "n": 3})
    out.append({"k": "fix", "e": {"k": "var", "e": {"k": "fix", "e": vv, "n": 2}, "n": 2}, "n": 2})
    out.append({"k": "struct", "name": names.fresh(), "ver": [1, 0], "fs": [["a", {"k": "prim", "p": "bool"}], ["b", {"k": "fix", "e": {"k": "fix", "e": vv, "n": 3}, "n": 2}]]})
    # variants / fields whose length sets agree in min, max and residues modulo 32 but differ as sets
    def arr(w, n):
        return {"k": "var", "e": {"k": "prim", "p": "uint", "w": w, "c": "sat"}, "n": n}
    for a, b in [(arr(64, 1), arr(32, 2)), (arr(32, 2), arr(64, 1)), (arr(32, 4), arr(64, 2)), (arr(64, 3), arr(32, 6))]:
        un = {"k": "union", "name": names.fresh(), "ver": [1, 0], "fs": [["a", a], ["b", b]]}
        out.append(un)
        out.append({"k": "struct", "name": names.fresh(), "ver": [1, 0], "fs": [["x", {"k": "prim", "p": "bool"}], ["u", dict(un, name=names.fresh())], ["y", a]]})
        out.append({"k": "fix", "e": dict(un, name=names.fresh()), "n": 2})
    # extents at and around the minimum
    for fields in ([["a", u8]], [["a", {"k": "var", "e": u8, "n": 5}], ["b", {"k": "prim", "p": "bool"}]], []):
        base = {"k": "struct", "name": names.fresh(), "ver": [1, 0], "fs": fields}
        mn = tygen.max_len(base)
        for ext in [mn - 8, mn - 1, mn, mn + 1, mn + 7, mn + 8, mn + 800, 0]:
            if ext >= 0:
                out.append({"k": "delim", "i": dict(base, name=names.fresh()), "ext": ext})
    # permutations of a 4-field structure mixing sub-byte and composite fields
    import itertools
    inner = {"k": "struct", "name": "ns.Inner", "ver": [1, 0], "fs": [["x", {"k": "prim", "p": "uint", "w": 3, "c": "sat"}]]}
    four = [["a", {"k": "prim", "p": "bool"}], ["b", inner], ["c", {"k": "var", "e": {"k": "prim", "p": "uint", "w": 7, "c": "sat"}, "n": 3}],
            [None, {"k": "void", "w": 5}]]
    for perm in itertools.permutations(four):
        out.append({"k": "struct", "name": names.fresh(), "ver": [1, 0], "fs": [list(p) for p in perm]})
    # offset sets whose ends are byte-aligned but whose interior is not (8 + {0..c} * w with c * w a multiple of 8), followed by
    # an aligned member and a sub-byte tail: padding decided from min/max alone goes wrong exactly here
    def sub(w):
        return {"k": "prim", "p": "uint", "w": w, "c": "sat"}
    for w, c in [(12, 2), (4, 2), (1, 8), (2, 4), (6, 4), (3, 8), (20, 2), (1, 16), (5, 8), (7, 8), (12, 4), (10, 4)]:
        for mid_kind in ("struct", "delim", "union", "array"):
            for tail in (1, 4, 7):
                core = {"k": "struct", "name": names.fresh(), "ver": [1, 0], "fs": [["x", sub(3 + tail)]]}
                if mid_kind == "struct":
                    mid = core
                elif mid_kind == "delim":
                    mid = {"k": "delim", "i": core, "ext": 64}
                elif mid_kind == "union":
                    mid = {"k": "union", "name": names.fresh(), "ver": [1, 0], "fs": [["p", sub(5)], ["q", sub(16)]]}
                else:
                    mid = {"k": "fix", "e": core, "n": 2}
                out.append({"k": "struct", "name": names.fresh(), "ver": [1, 0],
                            "fs": [["samples", {"k": "var", "e": sub(w), "n": c}], ["inner", mid], ["tail", sub(tail)]]})
    return [mk_case(rng, t, tier) for t in out]


def generate(rng, tier):
    cases = targeted(rng, tier)
    streams = ["targeted"] * len(cases)
    n = 700 if tier == "quick" else 12000
    for i in range(n):
        names = tygen.NameGen()
        depth = rng.choice([1, 2, 2, 3, 3, 4] if tier == "quick" else [2, 3, 4, 4, 5, 6])
        via = "text" if i % 4 == 0 else "ctor"
        if via == "text":
            t = tygen.gen_composite(rng, depth, names)
        else:
            t = tygen.gen_type(rng, depth, names, nested_arrays=True)   # arrays of arrays exist only through the API
        cases.append(mk_case(rng, t, tier, via))
        streams.append("random")
    return cases, streams


# ----------------------------------------------------------------------------------------------------------------


def observe(o, plan):
    import pydsdl

    b = o.bit_length_set
    ob = {"align": o.alignment_requirement, "min": b.min, "max": b.max,
          "mods": [[d, sorted(b % d)] for d in plan["mods"]],
          "exp": sorted(b) if plan["exp"] else None, "extent": None, "aux": None}
    if isinstance(o, pydsdl.CompositeType):
        ob["extent"] = o.extent
    if isinstance(o, pydsdl.VariableLengthArrayType):
        ob["aux"] = o.length_field_type.bit_length
    elif isinstance(o, pydsdl.DelimitedType):
        ob["aux"] = o.delimiter_header_type.bit_length
    elif isinstance(o, pydsdl.UnionType):
        ob["aux"] = o.tag_field_type.bit_length
    return ob


def _run_impl_raw(cases):
    import pydsdl
    import shutil
    import tempfile
    from pathlib import Path

    out = []
    scratch = os.environ.get("VERIF_SCRATCH")
    for case in cases:
        t = case["type"]
        nodes = tygen.subtypes(t)
        res = []
        if case["via"] == "text":
            d = Path(tempfile.mkdtemp(dir=scratch))
            try:
                for rel, txt in tygen.definition_files(t).items():
                    p = d / rel
                    p.parent.mkdir(parents=True, exist_ok=True)
                    p.write_text(txt)
                try:
                    comps = {str(c): c for c in pydsdl.read_namespace(d / "ns", [])}
                    for n, pl in zip(nodes, case["plan"]):
                        if n["k"] in ("struct", "union", "delim"):
                            c = comps[tygen.type_text(n)]
                            if n["k"] in ("struct", "union"):
                                c = c.inner_type
                            res.append(observe(c, pl))
                        else:
                            res.append(None)
                except pydsdl.InvalidDefinitionError:
                    res = ["rejected-whole"]
                except Exception as ex:  # pylint: disable=broad-except
                    res = [{"error": type(ex).__name__, "text": str(ex)[:200]}]
            finally:
                shutil.rmtree(d, ignore_errors=True)
        else:
            cache = {}
            for n, pl in zip(nodes, case["plan"]):
                try:
                    o = tygen.build(n, cache)
                    res.append(observe(o, pl))
                except pydsdl.InvalidDefinitionError:
                    res.append("rejected")
                    break  # parents cannot be built either
                except Exception as ex:  # pylint: disable=broad-except
                    res.append({"error": type(ex).__name__, "text": str(ex)[:200]})
                    break
        out.append(res)
    return out


def emit_obs(ob):
    return ("(Accepted {| o_align := %s; o_min := %s; o_max := %s; o_mods := %s; o_exp := %s; o_extent := %s; o_aux := %s |})" % (
        G.z(ob["align"]), G.z(ob["min"]), G.z(ob["max"]), G.lst(["(%s, %s)" % (G.z(d), G.zlist(l)) for d, l in ob["mods"]]),
        G.opt(None if ob["exp"] is None else G.zlist(ob["exp"])), G.opt(None if ob["extent"] is None else G.z(ob["extent"])),
        G.opt(None if ob["aux"] is None else G.z(ob["aux"]))))


BAD = "(TVoid 1, Accepted {| o_align := 0; o_min := 0; o_max := 0; o_mods := []; o_exp := None; o_extent := None; o_aux := None |})"


def emit(case, obs):
    nodes = tygen.subtypes(case["type"])
    parts = []
    if obs == ["rejected-whole"]:
        # the text route rejects the namespace as a whole: the model must reject at least one node
        return G.lst(["(%s, Rejected)" % tygen.emit_ty(case["type"])]) if True else ""
    for n, ob in zip(nodes, obs):
        if ob is None:
            continue
        if ob == "rejected":
            parts.append("(%s, Rejected)" % tygen.emit_ty(n))
        elif "error" in ob:
            parts.append(BAD)  # an unexpected exception class: cannot agree
        else:
            parts.append("(%s, %s)" % (tygen.emit_ty(n), emit_obs(ob)))
    return G.lst(parts)


def model_eval(case, obs):
    return ("Eval vm_compute in (map (fun n => (wft (fst n), align (fst n), omin (bls (fst n)), omax (bls (fst n)), C02.model_extent (fst n), C02.model_aux (fst n), "
            "match snd n with C02.Accepted o => map (fun dl => omodf (bls (fst n)) (fst dl)) (C02.o_mods o) | _ => [] end)) (List.concat cases)).\n")


def nontrivial(case, obs):
    nodes = tygen.subtypes(case["type"])
    return len(nodes) >= 3 and any(n["k"] in ("fix", "var", "struct", "union", "delim") for n in nodes)


def describe(case, obs):
    nodes = tygen.subtypes(case["type"])
    keys = ["via:" + case["via"], "nodes=%d" % min(len(nodes), 15)]
    for n in nodes:
        keys.append("kind:" + n["k"])
        if n["k"] in ("fix", "var"):
            c = n["n"]
            keys.append("capacity:" + ("<=255" if c <= 255 else "<=65535" if c <= 65535 else "<2^32" if c < 2 ** 32 else ">=2^32"))
    if any(o == "rejected" for o in obs) or obs == ["rejected-whole"]:
        keys.append("rejected")
    if any(isinstance(o, dict) and "error" in o for o in obs):
        keys.append("impl-error")
    return keys


def shrink(case):
    t = case["type"]
    plan = case["plan"]
    nodes = tygen.subtypes(t)
    # a single sub-node on its own
    if len(nodes) > 1:
        for n, pl in zip(nodes[:-1], plan[:-1]):
            sub_n = len(tygen.subtypes(n))
            idx = [i for i, m in enumerate(nodes) if m is n][0]
            yield {"type": n, "plan": plan[idx - sub_n + 1: idx + 1], "via": "ctor"}
    if case["via"] == "text":
        yield dict(case, via="ctor")


def run_impl(cases):
    """every case under a wall-clock ceiling (>= 50x the slowest case on the unchanged tree): a hang becomes a reported failure"""
    import rt

    out = []
    for case in cases:
        try:
            out.append(rt.with_alarm(30, lambda c=case: _run_impl_raw([c])[0]))
        except rt.CaseTimeout:
            out.append({"harness_fail": True, "pred_fail": "the implementation did not finish this case within 30 s (cases are generated under a cost guard of well below a second)"})
    return out
