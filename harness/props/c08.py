"""C08 - field offsets and layout intrinsics: generator, implementation runner, emitter."""
import os
import re
import gallina as G
import tygen
from props import c01

ID = "C08"
PROPS_FILE = "Props/C08.v"
COQ_IMPORTS = "From PV Require Import Util.ListSet BLS.Model Layout.Types Layout.Offsets Check.C08."
CASE_TYPE = "C08.case"
CHECK_FN = "C08.check_case"
SHARD = 100
RULE = ("four kinds of cases: (fields) a random composite type x a random base offset set (single/multi-valued, aligned or not, or a "
        "small operator tree) -> every (field, offset) yielded by iterate_fields_with_offsets in order, each offset observed by "
        "min/max/residues for several divisors/expansion when small; (elems) a fixed-length array x base -> the first elements of "
        "enumerate_elements_with_offsets; (intr) a DSDL definition with `@print _offset_` after every statement position "
        "(structures) or after the last variant (unions), value channel = handler text; (attr) `@print T._bit_length_` and "
        "`T._extent_` of dependency types. Non-trivial = composite has >= 2 fields or the base has >= 2 values; distinct by hash")
THEOREMS_NOTE = "C08_struct/C08_union/C08_delimited/C08_elements/C08_offset_intrinsic_*/C08_attrs fix the offset sets; C01 fixes every query on them"
TRUSTED = ["the textual form of DSDL sets printed by @print is parsed back by a regular expression in the harness"]
ASSUMPTIONS = ["intrinsic probes are generated only where the predicted expansion is small (the intrinsics expand numerically by design)"]
EXPLANATION = "theorems quantify over all composites, base offset sets and field positions; the correspondence compares every yielded offset with the proven model"
LEVEL_TEXT = ("Coq theorems: for every structure, union, delimited type and fixed array and EVERY base offset set, the model's "
              "iterate_fields_with_offsets / enumerate_elements_with_offsets yields each field / element exactly once in order with an "
              "operator tree whose denotation is exactly the set of start positions defined positionally (base padded to 8, preceding "
              "fields threaded with alignment padding, variants share base + tag, delimited adds the 32-bit header); `_offset_` equals the "
              "un-padded end offsets (structures) or tag + union of variants; `_bit_length_` enumerates LenSpec. Correspondence compares "
              "all of these observables of the implementation with the model inside Coq.")
LEVEL_NOTE = "Trusted: Coq kernel + vm_compute; correspondence of model and code is sampled. C08_sound_wrt_codec* (Serdes/OffsetsSound.v) ties the offset sets to the positions at which the serializer model of C06 really writes the fields (structures, unions, delimited structures)."
TECHNIQUE = "Coq proof by induction over field lists against a positional offset specification; vm_compute correspondence"

MODS = list(range(1, 17)) + [24, 32, 64]


def gen_base(rng):
    r = rng.random()
    if r < 0.35:
        return {"o": "leaf", "v": [rng.choice([0, 0, 8, 16, 1, 3, 7, 9, 64, 100])], "how": "int", "raw": False}
    if r < 0.8:
        n = rng.choice([2, 2, 3, 4])
        return {"o": "leaf", "v": sorted(set(rng.choice([0, 1, 8, 16, 24, 5, 13, 32, 40, 63, 64, 65]) for _ in range(n))), "how": "set", "raw": False}
    inner = {"o": "leaf", "v": sorted(set([rng.choice([1, 3, 8, 16]) for _ in range(2)])), "how": "set", "raw": False}
    if rng.random() < 0.5:
        return {"o": "rrep", "c": inner, "k": rng.choice([2, 3, 255, 2 ** 32])}
    return {"o": "cat", "cs": [{"o": "leaf", "v": [rng.choice([0, 4, 8])], "how": "int", "raw": False},
                               {"o": "pad", "c": {"o": "rrep", "c": inner, "k": rng.choice([1, 5, 70000])}, "a": rng.choice([1, 8])}]}


def plan(rng, ops, budget):
    """queries for a list of offset trees under the cost guard"""
    divs = sorted(set([8] + [rng.choice(MODS) for _ in range(3)]))
    out = []
    spent = [0, 0]
    for op in ops:
        ds = []
        for d in divs:
            c = [0, 0]
            c01.ref_mod(op, d, c)
            if spent[0] + c[0] <= budget and spent[1] + c[1] <= 40 * budget:
                spent[0] += c[0]
                spent[1] += c[1]
                ds.append(d)
        exp = False
        if rng.random() < 0.35:
            c = [0, 0]
            s = c01.ref_expand(op, 400, c)
            if s is not None:
                tot = [c[0], 0]
                for sub in c01.postorder(op):
                    for d in range(1, 65):
                        c01.ref_mod(sub, d, tot)
                        if tot[0] > budget:
                            break
                    if tot[0] > budget:
                        break
                if spent[0] + tot[0] <= budget and spent[1] + tot[1] <= 40 * budget:
                    spent[0] += tot[0]
                    spent[1] += tot[1]
                    exp = True
        out.append({"mods": ds, "exp": exp})
    return out


def small_expansion(op, cap=300):
    c = [0, 0]
    s = c01.ref_expand(op, cap, c)
    if s is None or c[0] > 20000:
        return False
    tot = [0, 0]
    for sub in c01.postorder(op):
        for d in range(1, 65):
            c01.ref_mod(sub, d, tot)
            if tot[0] > 60000:
                return False
    return True


def gen_intr(rng, names):
    """a definition with _offset_ probes; nested composites become dependency files"""
    union = rng.random() < 0.3
    t = tygen.gen_composite(rng, rng.choice([1, 2, 2]), names, small_caps=True, allow_delim=True, force="union" if union else "struct")
    inner = t["i"] if t["k"] == "delim" else t
    probes = []
    fs = inner["fs"]
    positions = [len(fs)] if union else list(range(len(fs) + 1))
    for p in positions:
        sub = dict(inner, fs=fs[:p])
        op = tygen.to_op(sub)["c"]  # un-padded aggregate
        if union and p < 2:
            continue
        if small_expansion(op):
            probes.append(p)
    deps = [n for n in tygen.subtypes(inner)[:-1] if n["k"] in ("struct", "union", "delim")]
    attr = []
    for dnode in deps:
        if dnode["k"] in ("struct", "union") and any(m["k"] == "delim" and m["i"] is dnode for m in deps):
            continue
        if small_expansion(tygen.to_op(dnode)):
            attr.append(tygen.type_text(dnode))
    if probes and rng.random() < 0.3:
        probes = sorted(rng.sample(probes, rng.randrange(1, len(probes) + 1)))
    early = bool(union and rng.random() < 0.4)
    case = {"kind": "intr", "type": t, "probes": probes, "attrs": sorted(set(attr))}
    if early:
        case["early_offset"] = True
    if rng.random() < 0.4 and not union:
        # a service: the response section is a second schema of the same definition (same field counts are likely)
        r = tygen.gen_composite(rng, rng.choice([0, 1]), names, small_caps=True, allow_delim=False, force="struct")
        while len(r["fs"]) < len(inner["fs"]) and rng.random() < 0.7:
            r["fs"].append(["g%d" % len(r["fs"]), tygen.gen_type(rng, 1, names, small_caps=True, allow_delim=False)])
        rp = []
        for p in range(len(r["fs"]) + 1):
            if small_expansion(tygen.to_op(dict(r, fs=r["fs"][:p]))["c"]):
                rp.append(p)
        # histories matter: sometimes evaluate `_offset_` only once per section, at the same field count in both
        if rng.random() < 0.6 and probes and rp:
            common = [p for p in probes if p in rp]
            if common:
                p0 = rng.choice(common)
                case["probes"] = [p0]
                rp = [p0]
            else:
                case["probes"] = [rng.choice(probes)]
                rp = [rng.choice(rp)]
        case["resp"] = r
        case["resp_probes"] = rp
    return case


def generate(rng, tier):
    cases, streams = [], []
    budget = 1.5e5 if tier == "quick" else 6e5
    n = 500 if tier == "quick" else 8000
    # targeted: the unit-test shapes of the repository plus boundary bases
    names = tygen.NameGen()
    u8 = {"k": "prim", "p": "uint", "w": 8, "c": "sat"}
    tg = [
        {"k": "struct", "name": names.fresh(), "ver": [1, 0], "fs": [["a", {"k": "prim", "p": "uint", "w": 3, "c": "sat"}], ["b", {"k": "var", "e": u8, "n": 2}],
                                                                    [None, {"k": "void", "w": 5}], ["c", {"k": "struct", "name": names.fresh(), "ver": [1, 0], "fs": []}]]},
        {"k": "union", "name": names.fresh(), "ver": [1, 0], "fs": [["a", u8], ["b", {"k": "var", "e": {"k": "prim", "p": "bool"}, "n": 9}]]},
        {"k": "delim", "ext": 64, "i": {"k": "struct", "name": names.fresh(), "ver": [1, 0], "fs": [["a", u8], ["b", {"k": "prim", "p": "bool"}]]}},
        {"k": "struct", "name": names.fresh(), "ver": [1, 0], "fs": []},
    ]
    tg.append({"k": "union", "name": names.fresh(), "ver": [1, 0], "fs": [["v%d" % i, u8 if i % 3 else {"k": "prim", "p": "uint", "w": 1 + i % 11, "c": "sat"}] for i in range(257)]})
    tg.append({"k": "struct", "name": names.fresh(), "ver": [1, 0], "fs": [["h", u8], ["u", dict(tg[-1], name=names.fresh())], ["t", {"k": "prim", "p": "bool"}]]})
    # the 16-bit tag boundary: a union of 2**16 variants inside a structure (the offset of the member after it carries the tag width;
    # the union itself is emitted to Coq as a generated term, see tygen.emit_ty)
    u16 = {"k": "prim", "p": "uint", "w": 16, "c": "sat"}
    for nv in (65535, 65536, 65537):
        big = {"k": "union", "name": names.fresh(), "ver": [1, 0], "fs": [["v%d" % i, u8 if i % 2 == 0 else u16] for i in range(nv)]}
        t = {"k": "struct", "name": names.fresh(), "ver": [1, 0], "fs": [["h", u8], ["u", big], ["t", {"k": "prim", "p": "bool"}]]}
        for base in ([0], [8, 16]):
            b = {"o": "leaf", "v": base, "how": "set", "raw": False}
            cases.append({"kind": "fields", "type": t, "base": b, "plan": plan(rng, tygen.field_offset_ops(t, b), budget)})
            streams.append("targeted")
    for t in tg:
        for base in ([0], [1], [8], [1, 16], [0, 8, 16], [3, 5, 64], [8, 16], [24]):
            b = {"o": "leaf", "v": base, "how": "set", "raw": False}
            cases.append({"kind": "fields", "type": t, "base": b, "plan": plan(rng, tygen.field_offset_ops(t, b), budget)})
            streams.append("targeted")
            if base == [0]:
                cases.append(dict(cases[-1], default_base=True))
                streams.append("targeted")
    inner8 = {"k": "struct", "name": "ns.In8", "ver": [1, 0], "fs": [["v", u8]]}
    for w, cap in [(1, 8), (4, 2), (12, 2), (2, 4), (3, 8), (1, 16)]:
        e = {"k": "prim", "p": "bool"} if w == 1 else {"k": "prim", "p": "uint", "w": w, "c": "sat"}
        for tail in ([["b", inner8], ["c", u8]], [["b", {"k": "fix", "e": inner8, "n": 2}]], [["b", inner8], ["c", {"k": "var", "e": inner8, "n": 2}], ["d", {"k": "prim", "p": "bool"}]]):
            t = {"k": "struct", "name": names.fresh(), "ver": [1, 0], "fs": [["a", {"k": "var", "e": e, "n": cap}]] + tail}
            cases.append({"kind": "intr", "type": t, "probes": list(range(len(t["fs"]) + 1)), "attrs": []})
            streams.append("targeted")
    for i in range(n):
        names = tygen.NameGen()
        r = i % 10
        if r < 6:
            t = tygen.gen_composite(rng, rng.choice([1, 2, 2, 3]), names)
            b = gen_base(rng)
            if rng.random() < 0.2:
                b = {"o": "leaf", "v": [0], "how": "set", "raw": False}
            cases.append({"kind": "fields", "type": t, "base": b, "plan": plan(rng, tygen.field_offset_ops(t, b), budget)})
            if b["o"] == "leaf" and b["v"] == [0]:
                cases[-1]["default_base"] = True
            if rng.random() < 0.5:
                cases[-1]["abandon"] = [rng.choice([0, 1, 1, 2])] + ([rng.choice([1, 2])] if rng.random() < 0.3 else [])
        elif r < 8:
            e = tygen.gen_type(rng, rng.choice([0, 1, 2]), names, in_array=True)
            cap = tygen.gen_capacity(rng, False)
            t = {"k": "fix", "e": e, "n": cap}
            b = gen_base(rng)
            if rng.random() < 0.2:
                b = {"o": "leaf", "v": [0], "how": "set", "raw": False}
            k = min(cap, rng.choice([1, 2, 3, 5]))
            cases.append({"kind": "elems", "type": t, "base": b, "count": k,
                          "plan": plan(rng, [tygen.elem_offset_op(e, b, j) for j in range(k)], budget)})
            if b["o"] == "leaf" and b["v"] == [0]:
                cases[-1]["default_base"] = True   # the argument is left out: the documented default is the empty prefix
        else:
            cases.append(gen_intr(rng, names))
        streams.append("random")
    return cases, streams


# ----------------------------------------------------------------------------------------------------------------


def observe(b, pl):
    return {"min": b.min, "max": b.max, "mods": [[d, sorted(b % d)] for d in pl["mods"]], "exp": sorted(b) if pl["exp"] else None}


def parse_set(text):
    return sorted(int(x) for x in re.findall(r"-?\d+", text))


def _run_impl_raw(cases):
    import itertools
    import shutil
    import tempfile
    from pathlib import Path
    import pydsdl

    scratch = os.environ.get("VERIF_SCRATCH")
    out = []
    for case in cases:
        try:
            if case["kind"] == "fields":
                T = tygen.build(case["type"])
                base = tygen.build_bls(case["base"])
                res = []
                for k_ab in case.get("abandon", []):
                    # an iteration that is started and abandoned after k_ab items (a `break`, a `next(iter(...))`,
                    # a nested second iteration) must not influence later iterations
                    it = T.iterate_fields_with_offsets(pydsdl.BitLengthSet(k_ab * 8))
                    for _ in range(k_ab):
                        if next(it, None) is None:
                            break
                    inner_it = T.iterate_fields_with_offsets()
                    next(inner_it, None)
                    del it, inner_it
                # the documented default of the base offset is the empty prefix {0}: leaving the argument out must give the same walk
                walk = T.iterate_fields_with_offsets() if case.get("default_base") else T.iterate_fields_with_offsets(base)
                for (f, off), pl in zip(walk, case["plan"] + [{"mods": [], "exp": False}] * 1000):
                    res.append({"name": f.name or None, "off": observe(off, pl)})
                out.append({"fields": res})
            elif case["kind"] == "elems":
                T = tygen.build(case["type"])
                base = tygen.build_bls(case["base"])
                res = []
                walk = T.enumerate_elements_with_offsets() if case.get("default_base") else T.enumerate_elements_with_offsets(base)
                for (i, off), pl in zip(itertools.islice(walk, case["count"]), case["plan"]):
                    res.append({"i": i, "off": observe(off, pl)})
                out.append({"elems": res})
            else:
                t = case["type"]
                inner = t["i"] if t["k"] == "delim" else t
                d = Path(tempfile.mkdtemp(dir=scratch))
                try:
                    files = tygen.definition_files(t)
                    comps = inner["name"].split(".")
                    top = "/".join(comps[:-1]) + "/%s.%d.%d.dsdl" % (comps[-1], inner["ver"][0], inner["ver"][1])
                    lines = []
                    if inner["k"] == "union":
                        if case.get("early_offset"):
                            lines.append("@print _offset_")
                        lines.append("@union")
                    for p in range(len(inner["fs"]) + 1):
                        if p in case["probes"]:
                            lines.append("@print _offset_")
                        if p < len(inner["fs"]):
                            name, f = inner["fs"][p]
                            lines.append(tygen.type_text(f) if name is None else "%s %s" % (tygen.type_text(f), name))
                    for a in case["attrs"]:
                        lines.append("@print %s._bit_length_" % a)
                        lines.append("@print %s._extent_" % a)
                    lines.append("@sealed" if t["k"] != "delim" else "@extent %d" % t["ext"])
                    if "resp" in case:
                        r = case["resp"]
                        tygen.definition_files(r, files)
                        files.pop("ns/%s.1.0.dsdl" % r["name"].split(".")[-1], None)
                        lines.append("---")
                        for p in range(len(r["fs"]) + 1):
                            if p in case["resp_probes"]:
                                lines.append("@print _offset_")
                            if p < len(r["fs"]):
                                name, f = r["fs"][p]
                                lines.append(tygen.type_text(f) if name is None else "%s %s" % (tygen.type_text(f), name))
                        lines.append("@sealed")
                    files[top] = "\n".join(lines) + "\n"
                    for rel, txt in files.items():
                        p = d / rel
                        p.parent.mkdir(parents=True, exist_ok=True)
                        p.write_text(txt)
                    prints = []
                    pydsdl.read_files([d / top], [d / "ns"], [], print_output_handler=lambda path, line, text: prints.append((str(path), text)))
                    mine = [txt for pth, txt in prints if pth.endswith(top)]
                    if case.get("early_offset"):
                        mine = mine[1:]   # the probe before @union saw the empty schema; only the later values are compared
                    out.append({"prints": mine})
                finally:
                    shutil.rmtree(d, ignore_errors=True)
        except Exception as ex:  # pylint: disable=broad-except
            if case.get("early_offset") and isinstance(ex, pydsdl.InvalidDefinitionError):
                out.append({"refused": True})   # referring to _offset_ before @union is refused by the unchanged tree
            else:
                out.append({"error": type(ex).__name__, "text": str(ex)[:300]})
    return out


def emit_fobs(o):
    return "{| f_min := %s; f_max := %s; f_mods := %s; f_exp := %s |}" % (
        G.z(o["min"]), G.z(o["max"]), G.lst(["(%s, %s)" % (G.z(d), G.zlist(l)) for d, l in o["mods"]]),
        G.opt(None if o["exp"] is None else G.zlist(o["exp"])))


def emit_fields(fs):
    return G.lst(["(%s, %s)" % (G.opt(None if n is None else G.codepoints(n)), tygen.emit_ty(f)) for n, f in fs])


FAIL = "[IAttr (TVoid 0) None None]"  # cannot succeed (wft (TVoid 0) = false)


def emit(case, obs):
    if obs.get("refused"):
        return "[]"
    if "error" in obs:
        return FAIL
    if case["kind"] == "fields":
        return G.lst(["IFields %s %s %s %s" % (tygen.emit_ty(case["type"]), c01.emit_op(case["base"]),
                                                G.lst([G.opt(None if f["name"] is None else G.codepoints(f["name"])) for f in obs["fields"]]),
                                                G.lst([emit_fobs(f["off"]) for f in obs["fields"]]))])
    if case["kind"] == "elems":
        if len(obs["elems"]) != case["count"]:
            return FAIL
        return G.lst(["IElems %s %s %s" % (tygen.emit_ty(case["type"]), c01.emit_op(case["base"]),
                                             G.lst(["(%s, %s)" % (G.z(e["i"]), emit_fobs(e["off"])) for e in obs["elems"]]))])
    t = case["type"]
    inner = t["i"] if t["k"] == "delim" else t
    prints = list(obs["prints"])
    if len(prints) != len(case["probes"]) + 2 * len(case["attrs"]) + len(case.get("resp_probes", [])):
        return FAIL
    items = []
    for p in case["probes"]:
        items.append("IIntr %s %s %s" % (G.b(inner["k"] == "union"), emit_fields(inner["fs"][:p]), G.zlist(parse_set(prints.pop(0)))))
    by_name = {tygen.type_text(n): n for n in tygen.subtypes(inner) if n["k"] in ("struct", "union", "delim")}
    for n in tygen.subtypes(inner):  # a delimited wrapper shadows its inner type under the same name
        if n["k"] == "delim":
            by_name[tygen.type_text(n)] = n
    for a in case["attrs"]:
        bl = parse_set(prints.pop(0))
        ext = parse_set(prints.pop(0))
        items.append("IAttr %s (Some %s) (Some %s)" % (tygen.emit_ty(by_name[a]), G.zlist(bl), G.z(ext[0] if len(ext) == 1 else -1)))
    for p in case.get("resp_probes", []):
        items.append("IIntr false %s %s" % (emit_fields(case["resp"]["fs"][:p]), G.zlist(parse_set(prints.pop(0)))))
    return G.lst(items)


def model_eval(case, obs):
    return ("Eval vm_compute in (map (fun it => match it with "
            "| C08.IFields t b _ _ => map (fun fo => (omin (snd fo), omax (snd fo), omodf (snd fo) 8)) (field_offsets t b) "
            "| C08.IIntr u fs _ => [(0, 0, oexpandf (offset_intrinsic u fs))] "
            "| C08.IAttr t _ _ => [(extent t, 0, oexpandf (bls t))] | _ => [] end) (List.concat cases)).\n")


def nontrivial(case, obs):
    t = case["type"]
    inner = t["i"] if t["k"] == "delim" else t
    if case["kind"] == "fields":
        return len(inner.get("fs", [])) >= 2 or len(case["base"].get("v", [0, 0])) >= 2
    if case["kind"] == "elems":
        return case["count"] >= 2
    return len(case["probes"]) + len(case["attrs"]) >= 1


def describe(case, obs):
    keys = ["kind:" + case["kind"]]
    t = case["type"]
    if case["kind"] == "fields":
        inner = t["i"] if t["k"] == "delim" else t
        keys += ["composite:" + t["k"], "fields=%d" % min(len(inner["fs"]), 6), "base:" + case["base"]["o"] + str(min(len(case["base"].get("v", [])), 4))]
    elif case["kind"] == "intr":
        keys += ["probes=%d" % len(case["probes"]), "attrs=%d" % len(case["attrs"])] + (["service"] if "resp" in case else [])
    if "error" in obs:
        keys.append("impl-error:" + obs["error"])
    return keys


def shrink(case):
    if case["kind"] == "fields":
        t = case["type"]
        if t["k"] == "delim":
            yield dict(case, type=t["i"], plan=case["plan"])
        inner = t["i"] if t["k"] == "delim" else t
        if len(inner["fs"]) > (2 if inner["k"] == "union" else 1):   # (a union keeps two variants: fewer is a different, invalid input)
            yield dict(case, type=dict(inner, fs=inner["fs"][:-1]), plan=case["plan"][:-1])
        if case["base"]["o"] != "leaf" or len(case["base"]["v"]) > 1:
            yield dict(case, base={"o": "leaf", "v": [case["base"].get("v", [0])[0]], "how": "int", "raw": False})


def run_impl(cases):
    """every case under a wall-clock ceiling (>= 50x the slowest case on the unchanged tree): a hang becomes a reported failure"""
    import rt

    out = []
    for case in cases:
        try:
            out.append(rt.with_alarm(30, lambda c=case: _run_impl_raw([c])[0]))
        except rt.CaseTimeout:
            out.append({"harness_fail": True, "pred_fail": "the implementation did not finish this case within 30 s (cases are generated under a cost guard of well below a second)"})
    return out
