"""C16 - layout analysis is symbolic: enumeration monitor, generator, emitter."""
import copy
import os
import signal
import sys
import time
import gallina as G
import tygen

ID = "C16"
PROPS_FILE = "Props/C16.v"
COQ_IMPORTS = "From PV Require Import Util.ListSet BLS.Model BLS.Cost Check.C16."
CASE_TYPE = "C16.case"
CHECK_FN = "C16.check_case"
SHARD = 40
PAR_MIN = 4
SHRINK_BUDGET_S = 60
SWEEP = [2, 2 ** 4, 2 ** 8, 2 ** 16, 2 ** 32, 2 ** 63]
# Only the queries the property lists are made (byte alignment -> divisor 8, equality -> 32, constructor assertions -> 1, 8).
# Arbitrary `% d` queries are NOT part of C16: on the unchanged tree `% 56` of a nested variable array of sub-byte elements
# legitimately enumerates millions of multisets (that cost is bounded in the capacity, which is all C16 claims).
QUERIED = [1, 8, 32]
RULE = ("a case is one random composite definition (nesting depth 1-4, sub-byte and byte-aligned elements, delimited members) written as "
        "DSDL files, instantiated with every capacity/extent scale of the sweep 2**1, 2**4, 2**8, 2**16, 2**32, 2**63 for its marked "
        "arrays/extents; for each instance the namespace is read twice and every composite is queried: bit_length_set.min/max, extent, "
        "fixed_length, is_aligned_at_byte of the type and of every field offset, == and hash between the two readings. The runner "
        "monkey-patches pydsdl._bit_length_set._symbolic: itertools.product / combinations_with_replacement count every item they "
        "yield, every Operator.modulo call is logged (kind, divisor, count k, sizes of the children's residue sets, items it "
        "enumerated itself, size of its result), every Operator.expand call is counted; independently of how the code is written, the "
        "Python line events (one per loop iteration) executed inside pydsdl/_bit_length_set and pydsdl/_serializable are counted by a "
        "trace function and must not grow with capacity from 2**16 on (<= 2x + 1000), and each instance has a 10 s CPU-time ceiling. "
        "The per-call comparison with the model is one-sided: a call may enumerate no more than the closed form (items, children's "
        "residue sets, result), so that the proven bounds transfer. Non-trivial = the definition contains a marked "
        "array nested in another array or composite; distinct by hash")
THEOREMS_NOTE = ("C16_local_* give the closed form that bounds the logged per-call enumeration; C16_count_clamp/C16_capacity_sweep/C16_clamp_tree make cost independent "
                 "of capacities beyond 2*divisor; C16_residue_sets_bounded bounds every enumerated set by its divisor")
TRUSTED = ["the monitor is monkey-patching done by the runner process (no source hook); wall time and memory are not modelled (a 10 s CPU-time ceiling per instance and the line-event count are implementation-only observations)"]
ASSUMPTIONS = ["definitions using `_offset_` / `_bit_length_` are excluded: those intrinsics expand numerically by design"]
EXPLANATION = ("partial by nature: the theorems are about the number and size of enumerated sets (closed-form cost semantics proved equal to the model's "
               "enumeration), the monitor ties that cost semantics to every modulo() call the implementation makes and checks that expansion never happens")
LEVEL_TEXT = ("Coq theorems about a cost semantics of the solver: each modulo() call enumerates exactly the closed-form number of tuples/multisets "
              "(proved equal to the length of the lists the model enumerates), residue sets never exceed the divisor, every repetition count behaves "
              "exactly like one below 2*divisor (answer AND cost), hence enumeration cost is independent of capacities/extents for whole trees "
              "(clamp theorem). The runner logs every modulo()/expand() call of the implementation while reading and querying definitions swept "
              "over 2**1..2**63 and Coq checks every logged call against the cost model; totals must be identical across the sweep from 2**16 on "
              "and expand() must never run. Real time and memory are not modelled (partial).")
LEVEL_NOTE = "Trusted: Coq kernel + vm_compute; monitor by monkey-patching; only the logical core (what is enumerated) is proved, not wall time."
TECHNIQUE = "Coq proof of a cost semantics (closed-form enumeration counts, count clamping) + instrumented correspondence of every modulo()/expand() call"


# ----------------------------------------------------------------------------------------------------------------


def mark(rng, t, depth=0):
    """mark arrays / delimited extents that take part in the sweep"""
    k = t["k"]
    if k in ("fix", "var"):
        t["sweep"] = rng.random() < 0.7
        mark(rng, t["e"], depth + 1)
    elif k in ("struct", "union"):
        for _, f in t["fs"]:
            mark(rng, f, depth + 1)
    elif k == "delim":
        t["sweep"] = rng.random() < 0.5
        mark(rng, t["i"], depth + 1)


def instantiate(t, cap):
    t = copy.deepcopy(t)

    def go(n):
        k = n["k"]
        if k in ("fix", "var"):
            go(n["e"])
            if n.get("sweep"):
                n["n"] = cap
        elif k in ("struct", "union"):
            for _, f in n["fs"]:
                go(f)
        elif k == "delim":
            go(n["i"])
            # extent/8 is kept a multiple of 64 so that every repetition count of an instance with scale >= 2**8 is
            # congruent to 0 modulo every divisor in use (1, 8, 32): then C16_capacity_sweep predicts identical costs
            units = (tygen.max_len(n["i"]) + 511) // 512 * 64
            n["ext"] = 8 * (units + (64 * cap if n.get("sweep") else 0))
    go(t)
    return t


def generate(rng, tier):
    cases, streams = [], []
    n = 60 if tier == "quick" else 600
    for i in range(n):
        names = tygen.NameGen()
        t = tygen.gen_composite(rng, rng.choice([1, 2, 2, 3, 3] if tier == "quick" else [2, 3, 3, 4]), names, small_caps=True)
        mark(rng, t)
        cases.append({"type": t})
        streams.append("random")
    # targeted: the shape of upstream issue #23 (nested variable-length composites) and sub-byte elements
    u8 = {"k": "prim", "p": "uint", "w": 8, "c": "sat"}
    inner = {"k": "struct", "name": "ns.Inner", "ver": [1, 0], "fs": [["a", {"k": "var", "e": u8, "n": 3, "sweep": True}],
                                                                      ["b", {"k": "var", "e": {"k": "prim", "p": "uint", "w": 3, "c": "sat"}, "n": 5, "sweep": True}]]}
    mid = {"k": "struct", "name": "ns.Mid", "ver": [1, 0], "fs": [["x", {"k": "var", "e": inner, "n": 2, "sweep": True}], ["y", {"k": "prim", "p": "bool"}]]}
    outer = {"k": "delim", "sweep": True, "ext": 0, "i": {"k": "union", "name": "ns.Outer", "ver": [1, 0],
                                                           "fs": [["p", {"k": "fix", "e": mid, "n": 2, "sweep": True}], ["q", {"k": "var", "e": {"k": "prim", "p": "byte"}, "n": 7, "sweep": True}]]}}
    cases.insert(0, {"type": outer})
    streams.insert(0, "targeted")
    return cases, streams


# ----------------------------------------------------------------------------------------------------------------


CEILING_S = 10  # CPU seconds of the implementation process (machine load cannot trip it); >= 50x the slowest instance measured on the unchanged tree (~0.1-0.4 s): only a change of complexity class trips it


class InstanceTimeout(BaseException):
    pass


def _on_alarm(_sig, _frm):
    raise InstanceTimeout()


class Monitor:
    """Counts enumeration inside pydsdl._bit_length_set._symbolic by monkey-patching (restored afterwards)."""

    def __init__(self):
        import itertools

        self.total = 0
        self.expands = 0
        self.calls = []
        self.stack = []
        self.saved = []
        self.saved_itertools = None
        self.attach_error = None
        # technique-independent measure: Python-level line events (one per loop iteration as well) executed inside the layout
        # analysis packages; whatever way a residue or offset computation is written, its work shows up here or in the ticks
        self.work = 0
        import pydsdl
        base = os.path.dirname(os.path.abspath(pydsdl.__file__))
        self.traced_dirs = (os.path.join(base, "_bit_length_set") + os.sep, os.path.join(base, "_serializable") + os.sep)
        sys.settrace(self._global_trace)
        try:
            from pydsdl._bit_length_set import _symbolic as S
            self.S = S
            self._attach(S, itertools)
        except Exception as ex:  # pylint: disable=broad-except
            # the internals the monitor hooks into are gone (renamed / restructured): the correspondence cannot be observed
            self.attach_error = "%s: %s" % (type(ex).__name__, str(ex)[:200])
            self.close()

    def _global_trace(self, frame, event, _arg):
        if frame.f_code.co_filename.startswith(self.traced_dirs):
            return self._local_trace
        return None

    def _local_trace(self, _frame, event, _arg):
        if event == "line":
            self.work += 1
        return self._local_trace

    def _attach(self, S, itertools):
        mon = self

        class CountingItertools:
            @staticmethod
            def product(*a, **kw):
                for x in itertools.product(*a, **kw):
                    mon.tick()
                    yield x

            @staticmethod
            def combinations_with_replacement(*a, **kw):
                for x in itertools.combinations_with_replacement(*a, **kw):
                    mon.tick()
                    yield x

            def __getattr__(self, name):
                return getattr(itertools, name)

        self.saved_itertools = S.itertools
        S.itertools = CountingItertools()
        kinds = {S.NullaryOperator: "KLeaf", S.PaddingOperator: "KPad", S.ConcatenationOperator: "KCat",
                 S.RepetitionOperator: "KRep", S.RangeRepetitionOperator: "KRRep", S.UnionOperator: "KUni"}
        for cls, kind in list(kinds.items()) + [(S.MemoizationOperator, None)]:
            self.saved.append((cls, "modulo", cls.modulo))
            cls.modulo = self.wrap_modulo(cls.modulo, kind)
        # expansion of a leaf is just its (small) set, e.g. the residue set returned by `%`; everything else is numeric expansion
        for cls in [c for c in kinds if c is not S.NullaryOperator] + [S.MemoizationOperator]:
            self.saved.append((cls, "expand", cls.expand))
            cls.expand = self.wrap_expand(cls.expand)

    def tick(self):
        self.total += 1
        if self.stack:
            self.stack[-1][0] += 1

    def wrap_modulo(self, orig, kind):
        """Logs one modulo() call. Nothing here depends on private attribute names: the sizes of the children's residue sets are the
        sizes of the results of the direct child calls made by this call (memoised children answer through MemoizationOperator.modulo,
        which is wrapped as a pass-through with kind None), the repetition count is the integer attribute of the operator."""
        mon = self

        def modulo(op, divisor):
            frame = [0, []]
            mon.stack.append(frame)
            try:
                out = orig(op, divisor)
            finally:
                mon.stack.pop()
            if mon.stack:
                mon.stack[-1][1].append(len(out))
            if kind is None:
                return out
            k = 0
            if kind in ("KRep", "KRRep"):
                try:
                    ints = [v for v in vars(op).values() if isinstance(v, int) and not isinstance(v, bool)]
                    if len(ints) != 1:
                        raise TypeError("%d integer attributes" % len(ints))
                    k = ints[0]
                except TypeError as ex:  # representation changed: the correspondence cannot be observed (not a property failure)
                    mon.attach_error = "repetition count not found: %s" % str(ex)[:200]
            sizes = list(frame[1]) if kind != "KLeaf" else []
            mon.calls.append({"kind": kind, "d": divisor, "k": k, "sizes": sizes, "local": frame[0], "out": len(out)})
            return out

        return modulo

    def wrap_expand(self, orig):
        mon = self

        def expand(op):
            mon.expands += 1
            return orig(op)

        return expand

    def close(self):
        sys.settrace(None)
        if self.saved_itertools is not None:
            self.S.itertools = self.saved_itertools
            self.saved_itertools = None
        for cls, name, f in self.saved:
            setattr(cls, name, f)
        self.saved = []


def run_impl(cases):
    import shutil
    import tempfile
    from pathlib import Path
    import pydsdl

    scratch = os.environ.get("VERIF_SCRATCH")
    out = []
    for case in cases:
        variants = []
        fail = None
        drift = None
        for cap in SWEEP:
            t = instantiate(case["type"], cap)
            d = Path(tempfile.mkdtemp(dir=scratch))
            mon = Monitor()
            timed_out = False
            started = time.process_time()
            signal.signal(signal.SIGPROF, _on_alarm)
            signal.signal(signal.SIGALRM, _on_alarm)
            signal.setitimer(signal.ITIMER_PROF, float(CEILING_S))
            signal.alarm(CEILING_S * 30)  # distant wall-clock backstop
            try:
                files = tygen.definition_files(t)
                # the analytic in-language attribute `_extent_` of every composite is queried from another definition
                # (`_offset_` / `_bit_length_` are excluded: they expand numerically by design)
                probe = ["@assert %s._extent_ >= 0" % rel[:-5].replace("/", ".") for rel in sorted(files)]
                files["ns/ZzProbe.1.0.dsdl"] = "\n".join(probe + ["@sealed"]) + "\n"
                for rel, txt in files.items():
                    p = d / rel
                    p.parent.mkdir(parents=True, exist_ok=True)
                    p.write_text(txt)
                first = pydsdl.read_namespace(d / "ns", [])
                second = pydsdl.read_namespace(d / "ns", [])
                for a, b in zip(first, second):
                    bls = a.bit_length_set
                    _ = (bls.min, bls.max, a.extent, bls.fixed_length, bls.is_aligned_at_byte())

                    for _f, off in a.iterate_fields_with_offsets():
                        _ = off.is_aligned_at_byte()
                    if not (a == b) or hash(a) != hash(b):
                        fail = "two readings of the same definition are not equal / hash differently"
            except InstanceTimeout:
                timed_out = True
                fail = "instance with capacity scale %d did not finish within %d s" % (cap, CEILING_S)
            except Exception as ex:  # pylint: disable=broad-except
                fail = "unexpected %s: %s" % (type(ex).__name__, str(ex)[:200])
            finally:
                signal.setitimer(signal.ITIMER_PROF, 0)
                signal.alarm(0)
                mon.close()
                if mon.attach_error:
                    drift = "the enumeration monitor could not attach to pydsdl._bit_length_set._symbolic (%s)" % mon.attach_error
                shutil.rmtree(d, ignore_errors=True)
            elapsed = time.process_time() - started
            if elapsed > CEILING_S - 1 and not timed_out:
                fail = "instance with capacity scale %d took %.1f s" % (cap, elapsed)
            if timed_out:
                variants.append({"cap": cap, "total": 0, "expands": mon.expands, "calls": [], "elapsed": round(elapsed, 3), "work": mon.work})
                break
            variants.append({"cap": cap, "total": mon.total, "expands": mon.expands, "calls": mon.calls, "elapsed": round(elapsed, 3), "work": mon.work})
        ob = {"variants": variants}
        # totals must not depend on the capacity scale once it exceeds twice the largest divisor in use AND the implicit
        # length prefixes have the same residues: capacity 2**8 has a 16-bit prefix (16 mod 32 != 0), capacities from 2**16 on
        # have 32- or 64-bit prefixes (both 0 modulo every divisor in use), so only those instances are comparable
        # (the extra divisors 56, 88, ... are not comparable across the sweep: capacities are not congruent modulo them)
        big = [sum(c["local"] for c in v["calls"] if c["d"] in (1, 8, 32)) for v in variants if v["cap"] >= 2 ** 16]
        if len(set(big)) > 1:
            fail = "enumeration count for the divisors 1, 8, 32 depends on capacity: %s" % [(v["cap"], sum(c["local"] for c in v["calls"] if c["d"] in (1, 8, 32))) for v in variants]
        works = [v["work"] for v in variants if v["cap"] >= 2 ** 16 and v["calls"] is not None]
        if works and not fail and max(works) > 2 * min(works) + 1000:
            fail = "Python-level work inside pydsdl/_bit_length_set and pydsdl/_serializable grows with capacity: %s" % [(v["cap"], v["work"]) for v in variants]
        if any(v["expands"] for v in variants):
            fail = "numeric expansion was invoked %s times" % [v["expands"] for v in variants]
        if fail:
            ob["pred_fail"] = fail
        if drift and not fail:
            ob["corr_fail"] = drift
        out.append(ob)
    return out


def _lcm(a, b):
    import math
    return a * b // math.gcd(a, b)


def is_property_failure(case, obs):
    """True when the implementation's own observations contradict the property's statement on this input (as opposed to a mere
    difference from the model's closed-form enumeration counts, which is a broken correspondence)."""
    if obs.get("pred_fail"):
        return True
    for v in obs.get("variants", []):
        for c in v["calls"]:
            d = max(1, c["d"])
            if c["out"] > d or any(sz > _lcm(8, d) for sz in c["sizes"]):
                return True  # a residue set larger than the queried divisor
            if c["local"] > _lcm(8, d) ** 2 * max(1, c["k"] + 1) * 64:
                return True  # an enumeration far beyond anything a residue computation needs
    return False


def emit(case, obs):
    vs = []
    for v in obs["variants"]:
        calls = G.lst(["{| c_kind := %s; c_div := %s; c_k := %s; c_sizes := %s; c_local := %s; c_out := %s |}" % (
            c["kind"], G.z(c["d"]), G.z(c["k"]), G.zlist(c["sizes"]), G.z(c["local"]), G.z(c["out"])) for c in v["calls"]])
        vs.append("{| v_cap := %s; v_total := %s; v_expands := %s; v_queried := %s; v_calls := %s |}" % (
            G.z(v["cap"]), G.z(v["total"]), G.z(v["expands"]), G.zlist(QUERIED), calls))
    return G.lst(vs)


def nontrivial(case, obs):
    def nested(n, inside):
        k = n["k"]
        if k in ("fix", "var"):
            return (n.get("sweep") and inside) or nested(n["e"], True)
        if k in ("struct", "union"):
            return any(nested(f, True) for _, f in n["fs"])
        if k == "delim":
            return nested(n["i"], inside)
        return False
    return nested(case["type"], False)


def describe(case, obs):
    keys = []
    vs = obs["variants"]
    keys.append("calls_per_instance<=%d" % (10 ** len(str(max(len(v["calls"]) for v in vs)))))
    keys.append("total_at_2^63<=%d" % (10 ** len(str(vs[-1]["total"]))))
    for v in vs:
        for c in v["calls"]:
            keys.append("div=%d" % c["d"])
            break
    ds = sorted(set(c["d"] for v in vs for c in v["calls"]))
    keys.append("divisors:" + ",".join(map(str, ds)))
    if "pred_fail" in obs:
        keys.append("pred_fail")
    return keys


def shrink(case):
    t = case["type"]
    inner = t["i"] if t["k"] == "delim" else t
    if t["k"] == "delim":
        yield {"type": inner}
    if len(inner["fs"]) > (2 if inner["k"] == "union" else 1):
        for j in range(len(inner["fs"])):
            yield {"type": dict(inner, fs=inner["fs"][:j] + inner["fs"][j + 1:])}
    for name, f in inner["fs"]:
        if f["k"] in ("struct", "union", "delim"):
            yield {"type": f}
        if f["k"] in ("fix", "var") and f["e"]["k"] in ("struct", "union", "delim"):
            yield {"type": f["e"]}
