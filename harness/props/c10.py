"""C10 - namespace reading is complete, ordered and deterministic (uses the namespace library of props/c09.py)."""
import copy
from props import c09 as B
import gallina as G  # noqa: F401

ID = "C10"
PROPS_FILE = "Props/C10.v"
COQ_IMPORTS = "From PV Require Import Namespace.Reader Namespace.Listing Check.C09 Check.C10."
CASE_TYPE = "C10.case"
CHECK_FN = "C10.check_case"
SHARD = 40
RULE = ("a case is a namespace tree on disk (1-4 root directories, nesting depth 0-3, .dsdl and .uavcan files, several versions per "
        "name, files that are no definitions, directories named like definition files; a targeted stream of 8-10 type names per case "
        "with the version neighbours m.255 / (m+1).0 read as targets and as dependencies) plus read_namespace / read_files calls (target subsets of 1-5 files, with repetitions) "
        "and calls whose directory sets are nested (also with equal names, at depth 1 and deeper), equal, or equal in name up to case with allow_root_namespace_name_collision "
        "both ways; every call is repeated with 2-3 equivalent spellings of the directory arguments (relative, '..', '.', through a "
        "symbolic link, str / Path, permuted, duplicated; for read_files also directories and target files spelled differently: root "
        "through a symbolic link with real target paths and the converse; a root that holds only dependencies given as a bare "
        "relative name with its parent as working directory; the path lists as generator / iterator / map / tuple / single "
        "value / None); calls are repeated within one process with the other allow flag or another lookup set (histories), each "
        "compared with the model on its own; and the whole case under 4 values of PYTHONHASHSEED each with its own seeded "
        "shuffle of Path.rglob results; non-trivial = some call returns >= 2 types or is rejected because of the directory set; "
        "distinct = by hash of the canonical case")
THEOREMS_NOTE = ("C10_complete / C10_files / C10_files_api fix the returned sets (direct = requested, transitive = rest of the closure, disjoint, "
                 "types equal to reading alone), C10_sorted / C10_sorted_strict the order, C10_perm the independence from enumeration order, "
                 "C10_dir_args from order / duplication of directory arguments, C10_reject_dirs the accepted directory sets; "
                 "C10_complete_refuted is the F5b witness")
TRUSTED = ["Path.resolve, symbolic links, Path.rglob and the iteration order of Python sets are exercised through the implementation only "
           "(4 hash seeds x shuffled rglob, equivalent spellings must give identical observations)",
           "names are ASCII in every generated case"]
ASSUMPTIONS = ["bodies are sealed structures made of composite fields, uintN fields, @print and @assert false",
               "target files of read_files are absolute paths (real, with '..' or through a symbolic link, also spelled differently "
               "from the directory arguments); relative target paths are not used (they are welded onto root.parent by design)"]
EXPLANATION = ("theorems quantify over all file lists, orders of enumeration and directory argument lists of the model; the correspondence "
               "compares the ordered lists of (file, name, version, nested types) or the rejection with the model's value")
LEVEL_TEXT = ("Machine-checked theorems (Coq, closed under the global context) about a Gallina model of read_namespace / read_files "
              "(listing, sort key, direct / transitive bookkeeping with promotion, directory set checks); tied to /repo by reading generated "
              "namespaces and comparing the ordered results inside Coq; enumeration order, hash seed and argument spelling independence "
              "are additionally evaluated on the implementation alone.")
LEVEL_NOTE = ("Trusted: Coq kernel + vm_compute; pathlib / OS behaviour is not modelled; open finding F5b (two files with one name and version "
              "and equal composites yield one composite) is mirrored by the model and carved out by the hypothesis of unique (name, version).")
TECHNIQUE = "Coq proof (insertion sort, permutation invariance, loop invariants of the reader) + vm_compute correspondence on materialised namespaces"

SEEDS = [0, 1, 7, 12345]
# shapes of the path-list arguments (lookup directories, roots, target files): list, one-shot iterators, tuple, single value, None
SHAPES = ["list", "list", "gen", "iter", "tuple", "map", "single", "none"]


# ----------------------------------------------------------------------------------------------------------------
# generator


def gen_variants(rng, n):
    out = []
    for _ in range(n):
        out.append({"how": rng.choice(["rel", "dotdot", "dot", "link", "abs"]), "perm": rng.randrange(1 << 30), "dup": rng.random() < 0.4,
                    "as_path": rng.random() < 0.5, "shape": rng.choice(SHAPES)})
    return out


def gen_case(rng, tier):
    flavor = rng.choice(["plain", "plain", "plain", "twins", "dirs", "dirs", "case"])
    opts = {"print_p": 0.1, "missing_p": 0.01, "badrel_p": 0.01, "fault_p": 0.005}
    if flavor == "case":
        opts["case_names"] = True
        opts["case_dirs"] = True
    roots = B.pick_dirs(rng)
    n = rng.randrange(2, 13 if tier == "quick" else 20)
    defs = B.gen_defs(rng, roots, n, opts)
    B.gen_bodies(rng, roots, defs, opts)
    dirs = [list(r) for r in roots]
    # files that are not definitions
    for _ in range(rng.choice([0, 0, 1, 2])):
        o = rng.choice(defs)
        defs.append(dict(o, id=len(defs), ext="txt", body=[["fault"]], short=rng.choice(["notes", "A", o["short"]])))
    if flavor == "twins":
        defs.append(B.make_twin(rng, defs, rng.choice([d for d in defs if d["ext"] != "txt"]), rng.random() < 0.6))
    qs = []
    extra_dirs = []
    r0 = roots[0]
    if flavor == "dirs":
        twin_root = ["d", r0[-1]]
        case_root = ["e", r0[-1].swapcase()]
        other = ["f", "own"]
        extra_dirs = [twin_root, case_root, other, r0 + ["s"], r0 + ["s", "t"]]
        defs.append(B.mkfile(len(defs), twin_root + ["q"], "Own", 1, 0, [["plain", 8]]))
        defs.append(B.mkfile(len(defs), case_root, "Own", 1, 0, [["plain", 16]]))
        defs.append(B.mkfile(len(defs), other, "Own", 1, 0, []))
        # directories nested in r0 that carry r0's own name (ignoring case), at depth 1 and deeper
        same1 = r0 + [r0[-1]]
        same3 = r0 + ["s", "t", r0[-1].swapcase() if r0[-1].swapcase() != r0[-1] else r0[-1].upper()]
        extra_dirs += [same1, same3]
        defs.append(B.mkfile(len(defs), same1, "Same", 1, 0, [["plain", 8]]))
        defs.append(B.mkfile(len(defs), same3, "Same", 1, 0, []))
        cands = [twin_root, case_root, other, r0 + ["s"], r0 + ["s", "t"], [r0[0]], list(r0), same1, same3] + [list(r) for r in roots[1:]]
        for nested in (same1, same3):
            al = rng.random() < 0.7
            qs.append({"k": "ns", "root": list(r0), "lookups": [list(nested)], "allow": al})
            qs.append({"k": "ns", "root": list(nested), "lookups": [list(r0)], "allow": not al})
        sid = [f["id"] for f in defs if f["dir"] in (same1, same3)]
        qs.append({"k": "files", "targets": [rng.choice(sid)], "roots": [list(r0), list(rng.choice([same1, same3]))], "lookups": []})
        qs.append({"k": "files", "targets": [rng.choice(sid)], "roots": [list(rng.choice([same1, same3]))], "lookups": [list(r0)]})
        for _ in range(rng.choice([3, 4, 5])):
            k = rng.choice([1, 1, 2, 3])
            lk = [list(rng.choice(cands)) for _ in range(k)]
            root = list(rng.choice([r0, r0, other, twin_root, r0 + ["s"]]))
            qs.append({"k": "ns", "root": root, "lookups": lk, "allow": rng.random() < 0.5})
        ids = [f["id"] for f in defs if f["ext"] != "txt"]
        for _ in range(rng.choice([1, 2])):
            ts = [rng.choice(ids) for _ in range(rng.choice([1, 2, 3]))]
            rts = [list(r) for r in roots] + [list(rng.choice(cands)) for _ in range(rng.choice([0, 1, 2]))]
            rng.shuffle(rts)
            qs.append({"k": "files", "targets": ts, "roots": rts, "lookups": [list(rng.choice(cands)) for _ in range(rng.choice([0, 1]))]})
    dirs += extra_dirs
    for r in roots:
        if rng.random() < 0.7:
            lk = [x for x in roots if x != r and rng.random() < 0.8]
            qs.append({"k": "ns", "root": list(r), "lookups": lk, "allow": rng.random() < 0.7})
    ids = [f["id"] for f in defs if f["ext"] != "txt" and any(B.is_under(r, f) for r in roots)]
    for _ in range(rng.choice([1, 2, 3])):
        if ids:
            ts = [rng.choice(ids) for _ in range(rng.choice([1, 2, 3, 5]))]
            qs.append({"k": "files", "targets": ts, "roots": [list(r) for r in roots], "lookups": []})
    if ids and rng.random() < 0.3:
        # lookup directories given separately from the roots of the targets
        t = rng.choice(ids)
        f = defs[t]
        tr = B.natural_root(roots, f)
        qs.append({"k": "files", "targets": [t], "roots": [list(tr)], "lookups": [list(r) for r in roots if r != tr]})
    # histories: the same call again in the same process with another allow flag / another lookup set, each compared with the
    # model on its own (nothing may be remembered between calls)
    hist = []
    for q in qs:
        hist.append(q)
        if q["k"] == "ns" and (flavor == "dirs" or rng.random() < 0.35):
            hist.append(dict(q, allow=not q["allow"]))
            if rng.random() < 0.3:
                hist.append(dict(q))
        elif q["k"] == "files" and rng.random() < 0.25:
            hist.append(dict(q, lookups=[list(x) for x in q["lookups"]][:-1] if q["lookups"] else [list(r) for r in roots[:1]]))
    if flavor == "dirs":
        for lk in ([twin_root], [case_root], [twin_root, other]):
            first = rng.random() < 0.7
            hist.append({"k": "ns", "root": list(r0), "lookups": [list(x) for x in lk], "allow": first})
            hist.append({"k": "ns", "root": list(r0), "lookups": [list(x) for x in lk], "allow": not first})
    qs = hist
    for q in qs:
        q["variants"] = gen_variants(rng, rng.choice([2, 2, 3]))
        # the base call itself sometimes in another argument shape than a list: the model does not know about shapes
        if rng.random() < 0.5:
            q["variants"].append({"how": "abs", "perm": 0, "dup": False, "noperm": True, "as_path": rng.random() < 0.5, "shape": rng.choice(SHAPES[2:])})
        if q["k"] == "files":
            # directories and target files spelled differently: root through a symbolic link with the targets by their real
            # paths, and the converse; '..' against real
            a, b = rng.choice([("link", "abs"), ("link", "abs"), ("abs", "link"), ("abs", "link"), ("dotdot", "abs"), ("link", "dotdot")])
            q["variants"].append({"how": a, "how_targets": b, "perm": rng.randrange(1 << 30), "dup": rng.random() < 0.3, "as_path": rng.random() < 0.5})
    # directories named like definition files (empty, or holding notes): they are no definition FILES and must not count
    for _ in range(rng.choice([0, 1, 1, 2])):
        o = rng.choice([d for d in defs if d["ext"] != "txt"])
        nm = rng.choice(["Backup.1.0.uavcan", "Telemetry.0.9.dsdl", "%s.%d.%d.dsdl" % (o["short"], o["maj"], o["min"] + 1), "7000.Old.1.0.dsdl"])
        dd = o["dir"] + [nm]
        if dd not in dirs and not any(x["dir"] == o["dir"] and B.basename(x) == nm for x in defs):
            dirs.append(dd)
            if rng.random() < 0.5:
                defs.append(dict(o, id=len(defs), dir=dd, ext="txt", body=[["fault"]], short="notes", port=None))
    for q in qs:
        if q["k"] == "files":
            # a root given as a bare relative name (working directory = its parent), preferably one that holds no target:
            # it must still be a lookup directory
            fl = {f["id"]: f for f in defs}
            cand = [r for r in q["roots"] if len(r) >= 2 and not any(B.is_under(r, fl[t]) for t in q["targets"])] or [r for r in q["roots"] if len(r) >= 2]
            # (a bare name is also a root namespace NAME: when a target lies under none of the directories the name-based
            # inference applies and the spellings are not equivalent)
            if cand and all(any(B.is_under(r, fl[t]) for r in q["roots"]) for t in q["targets"]):
                q["variants"].append({"how": "abs", "bare": list(rng.choice(cand)), "perm": rng.randrange(1 << 30), "dup": False, "as_path": rng.random() < 0.5})
    return {"files": defs, "queries": qs, "flavor": flavor, "dirs": dirs}


def corpus():
    ns = ["a", "ns"]
    fs = [B.mkfile(0, ns, "Zeta", 1, 0, [["ref", "Alpha", 1, 5, 0]]), B.mkfile(1, ns, "Alpha", 1, 5, []), B.mkfile(2, ns, "Alpha", 1, 10, []),
          B.mkfile(3, ns, "Alpha", 2, 0, []), B.mkfile(4, ns, "Alpha", 0, 9, [], ext="uavcan"), B.mkfile(5, ns + ["s"], "Alpha", 1, 0, []),
          B.mkfile(6, ns, "alpha", 1, 0, []), B.mkfile(7, ns + ["s", "t"], "B", 1, 0, [["ref", "ns.Zeta", 1, 0, 0]]),
          B.mkfile(8, ["b", "lk"], "L", 1, 0, []), B.mkfile(9, ns, "Uses", 1, 0, [["ref", "lk.L", 1, 0, 0]])]
    lk = ["b", "lk"]
    qs = [{"k": "ns", "root": ns, "lookups": [lk], "allow": True}, {"k": "ns", "root": lk, "lookups": [ns], "allow": False},
          {"k": "files", "targets": [7], "roots": [ns, lk], "lookups": []}, {"k": "files", "targets": [0, 7, 1], "roots": [ns], "lookups": [lk]},
          {"k": "files", "targets": [9, 8], "roots": [ns, lk], "lookups": []}, {"k": "files", "targets": [9], "roots": [ns, lk], "lookups": []},
          {"k": "ns", "root": ns, "lookups": [ns + ["s"]], "allow": True}, {"k": "ns", "root": ns + ["s"], "lookups": [ns], "allow": True},
          {"k": "ns", "root": ns, "lookups": [["a"]], "allow": True}, {"k": "ns", "root": ns, "lookups": [ns, ns], "allow": False}]
    for q in qs:
        q["variants"] = [{"how": h, "perm": 3, "dup": True, "as_path": h == "link"} for h in ("rel", "dotdot", "link")]
        q["variants"] += [{"how": "abs", "perm": 0, "dup": False, "noperm": True, "as_path": sh in ("iter", "single"), "shape": sh} for sh in SHAPES[2:]]
        if q["k"] == "files":
            q["variants"] += [{"how": "link", "how_targets": "abs", "perm": 1, "dup": False, "as_path": True},
                              {"how": "abs", "how_targets": "link", "perm": 1, "dup": False, "as_path": False}]
    # a directory nested in another one of the same name (ignoring case): nested root namespaces whatever the flag says
    vn = ["a", "vendor"]
    v1, v3 = vn + ["vendor"], vn + ["deep", "er", "VENDOR"]
    fv = [B.mkfile(0, vn, "Top", 1, 0, [["plain", 8]]), B.mkfile(1, v1, "Same", 1, 0, []), B.mkfile(2, v3, "Same", 1, 0, [])]
    qv = []
    for nested in (v1, v3):
        for al in (True, False):
            qv.append({"k": "ns", "root": vn, "lookups": [nested], "allow": al, "variants": []})
            qv.append({"k": "ns", "root": nested, "lookups": [vn], "allow": al, "variants": []})
        qv.append({"k": "files", "targets": [0], "roots": [vn, nested], "lookups": [], "variants": []})
        qv.append({"k": "files", "targets": [1 if nested is v1 else 2], "roots": [nested], "lookups": [vn], "variants": []})
        qv.append({"k": "files", "targets": [1 if nested is v1 else 2], "roots": [nested], "lookups": [], "variants": []})
    nest_case = {"files": fv, "queries": qv, "flavor": "corpus-nested-same-name", "dirs": [vn, v1, v3]}
    # history: the same directories first with name collisions allowed, then disallowed (and the other way round)
    hn, hd, hc = ["a", "ns"], ["d", "ns"], ["e", "NS"]
    fh = [B.mkfile(0, hn, "A", 1, 0, [["plain", 8]]), B.mkfile(1, hd + ["q"], "Own", 1, 0, []), B.mkfile(2, hc, "Own", 1, 0, [])]
    qh = []
    for lks in ([hd], [hc], [hd, hc]):
        for seq in ((True, False, True), (False, True)):
            for al in seq:
                qh.append({"k": "ns", "root": hn, "lookups": lks, "allow": al, "variants": []})
    hist_case = {"files": fh, "queries": qh, "flavor": "corpus-history", "dirs": [hn, hd, hc]}
    # dependencies only in a root that is given as a bare relative name; directories named like definitions
    an, pl = ["t", "animals"], ["t", "plants"]
    fb = [B.mkfile(0, an, "Cat", 1, 0, [["ref", "plants.Grass", 1, 0, 0], ["ref", "Paw", 1, 0, 0]]), B.mkfile(1, an, "Paw", 1, 0, [["plain", 8]]),
          B.mkfile(2, pl, "Grass", 1, 0, [["ref", "Seed", 1, 0, 2]]), B.mkfile(3, pl, "Seed", 1, 0, [["plain", 8]]),
          dict(B.mkfile(4, an + ["Backup.1.0.uavcan"], "notes", 1, 0, [["fault"]]), ext="txt")]
    qb = [{"k": "files", "targets": [0], "roots": [an, pl], "lookups": [],
           "variants": [{"how": "abs", "bare": pl, "perm": 1, "dup": False, "as_path": a} for a in (False, True)] +
                       [{"how": "abs", "bare": an, "perm": 2, "dup": False, "as_path": False}, {"how": "dotdot", "perm": 2, "dup": True, "as_path": False}]},
          {"k": "ns", "root": an, "lookups": [pl], "allow": True, "variants": []}, {"k": "ns", "root": pl, "lookups": [], "allow": True, "variants": []}]
    extra = {"files": fb, "queries": qb, "flavor": "corpus-bare", "dirs": [an, pl, an + ["Backup.1.0.uavcan"], pl + ["s", "Telemetry.0.9.dsdl"], pl + ["Seed.1.1.dsdl"]]}
    # F5b: two files, one name and version, equal texts
    tw = [B.mkfile(0, ns, "A", 1, 0, [["plain", 8]]), B.mkfile(1, ns, "A", 1, 0, [["plain", 8]], port=7000), B.mkfile(2, ns, "B", 1, 0, [])]
    return [extra, hist_case, nest_case, {"files": fs, "queries": qs, "flavor": "corpus", "dirs": [ns, lk]},
            {"files": tw, "queries": [{"k": "ns", "root": ns, "lookups": [], "allow": True, "variants": []}], "flavor": "corpus-twins", "dirs": [ns]}]


def gen_neighbours(rng):
    """Targeted: for many type names the version neighbours m.255 / (m+1).0 (and 0.254 / 1.1 as control), i.e. versions that
    collide under any folding of (major, minor) into one number with a radix <= 255; read as targets and as dependencies.
    The results must come newest first.  Many pairs per case: a tie left to the iteration order of a set shows up."""
    roots = [["a", rng.choice(B.ROOT_NAMES)], ["b", "lib"]]
    defs = []
    names = rng.sample(["Alpha", "Beta", "Gamma", "Delta", "Eps", "Zeta", "Eta", "Theta", "Iota", "Kappa", "Lam", "Mu"], rng.choice([8, 9, 10]))
    members = []
    for k, nm in enumerate(names):
        r = roots[0] if k % 3 else roots[1]
        d = r + ([rng.choice(B.SUBS[:2])] if rng.random() < 0.4 else [])
        lo, hi = rng.choice([((0, 255), (1, 0)), ((1, 255), (2, 0)), ((254, 255), (255, 0)), ((0, 255), (1, 0)), ((9, 255), (10, 0)), ((0, 254), (1, 1))])
        pair = []
        for v in (lo, hi) if rng.random() < 0.5 else (hi, lo):
            f = B.mkfile(len(defs), d, nm, v[0], v[1], [["plain", rng.choice([8, 16])]], ext="dsdl" if rng.random() < 0.8 else "uavcan")
            defs.append(f)
            pair.append(f)
        if rng.random() < 0.3:
            defs.append(B.mkfile(len(defs), d, nm, lo[0], 3, [["plain", 8]]))        # a third, ordinary version
        members.append((r, d, nm, pair))
    # users: one definition per root that refers to both versions of several names (they become transitive for read_files)
    users = []
    for r in roots:
        body = []
        for (r2, d, nm, pair) in rng.sample(members, min(len(members), 6)):
            for f in pair:
                body.append(["ref", B.full_name(r2, f), f["maj"], f["min"], 0])
        rng.shuffle(body)
        u = B.mkfile(len(defs), r, "User", 1, 0, body)
        defs.append(u)
        users.append(u["id"])
    ids = [f["id"] for f in defs if f["id"] not in users]
    qs = [{"k": "ns", "root": list(r), "lookups": [list(x) for x in roots if x != r], "allow": True} for r in roots]
    qs.append({"k": "files", "targets": rng.sample(ids, len(ids)), "roots": [list(r) for r in roots], "lookups": []})
    qs.append({"k": "files", "targets": list(users), "roots": [list(r) for r in roots], "lookups": []})
    qs.append({"k": "files", "targets": [users[0]] + rng.sample(ids, len(ids) // 2), "roots": [list(roots[0])], "lookups": [list(roots[1])]})
    for q in qs:
        q["variants"] = gen_variants(rng, 1)
    return {"files": defs, "queries": qs, "flavor": "version-neighbours", "dirs": [list(r) for r in roots]}


def generate(rng, tier):
    cases = corpus()
    streams = ["corpus"] * len(cases)
    for _ in range(12 if tier == "quick" else 60):
        cases.append(gen_neighbours(rng))
        streams.append("targeted")
    n = 280 if tier == "quick" else 2400
    for _ in range(n):
        cases.append(gen_case(rng, tier))
        streams.append("random")
    return cases, streams


# ----------------------------------------------------------------------------------------------------------------
# implementation side


def rank(t):
    return (t[1], -t[2], -t[3])


def twins_of(case):
    """ids of definition files that share directory, short name and version with another one"""
    seen = {}
    for f in case["files"]:
        if f["ext"] == "txt" or f.get("bad"):
            continue
        seen.setdefault((tuple(f["dir"]), f["short"], f["maj"], f["min"]), []).append(f["id"])
    return {i for v in seen.values() if len(v) > 1 for i in v}


def predicates(case, q, o):
    """C10 evaluated on the implementation alone"""
    if "ok" not in o:
        return None
    k = o["ok"]
    for which in ("direct", "trans"):
        rs = [rank(t) for t in k[which]]
        if any(not a < b for a, b in zip(rs, rs[1:])):
            return "order: %s is not strictly sorted by (name, -major, -minor)" % which
    got = sorted(t[0] for t in k["direct"])
    if q["k"] == "ns":
        want = sorted(f["id"] for f in case["files"] if f["ext"] != "txt" and B.is_under(q["root"], f))
        if got != want:
            return "count: read_namespace returned the files %s, the root directory holds %s" % (got, want)
    else:
        want = sorted(set(q["targets"]))
        if got != want:
            return "count: read_files returned %s as direct for the targets %s" % (got, want)
        if set(got) & set(t[0] for t in k["trans"]):
            return "disjoint: a file is both direct and transitive"
    return None


def nodeliv(o):
    """handler calls are not C10's subject (and the handler is left out in some calls)"""
    return {"ok": dict(o["ok"], deliv=None)} if "ok" in o else o


def run_impl(cases):
    import os
    import shutil
    out = []
    B._patch_text()  # pylint: disable=protected-access
    import logging
    logging.disable(logging.CRITICAL)
    for case in cases:
        base = B.case_dir()
        cwd = os.getcwd()
        obs = []
        fail = None
        try:
            idmap = B.materialise(base, case)
            os.chdir(base)
            for qi, q in enumerate(case["queries"]):
                o = B.run_query(base, case, q, idmap)
                obs.append(o)
                p = predicates(case, q, o)
                if p and not fail:
                    fail = "query %d: %s" % (qi, p)
                for v in q.get("variants", []):
                    if q["k"] == "files" and v["how"] == "rel":
                        v = dict(v, how="abs")      # relative roots with absolute target paths are not an equivalent spelling
                    o2 = B.run_query(base, case, q, idmap, variant=v)
                    if nodeliv(o2) != nodeliv(o) and not fail:
                        fail = "query %d: spelling: %s gives %s instead of %s" % (qi, v, str(o2)[:300], str(o)[:300])
        finally:
            os.chdir(cwd)
            shutil.rmtree(base, ignore_errors=True)
        r = {"q": obs}
        if fail:
            r["pred_fail"] = fail
        out.append(r)
    return out


def run_all(cases, scratch, run_impl_parallel):
    import concurrent.futures
    with concurrent.futures.ThreadPoolExecutor(2) as ex:      # two hash seeds at a time (each run already uses several processes)
        runs = list(ex.map(lambda s: run_impl_parallel(ID, cases, scratch, hashseed=str(s), extra_env={"VERIF_SHUFFLE": str(s)}), SEEDS))
    out = copy.deepcopy(runs[0])
    for i, o in enumerate(out):
        for s, r in zip(SEEDS[1:], runs[1:]):
            if r[i].get("q") != o.get("q") and not o.get("pred_fail"):
                o["pred_fail"] = "hashseed: PYTHONHASHSEED / enumeration order %d gives a different result than %d" % (s, SEEDS[0])
            if r[i].get("pred_fail") and not o.get("pred_fail"):
                o["pred_fail"] = r[i]["pred_fail"]
    return out


# ----------------------------------------------------------------------------------------------------------------


def emit(case, obs):
    return B.emit_case_with("C09.mkCase", case, obs)


def model_eval(case, obs):
    return B.model_eval(case, obs)


def known_finding(case, obs, known):
    pf = obs.get("pred_fail") if isinstance(obs, dict) else None
    if not pf:
        return None
    tw = twins_of(case)
    if tw and ("count:" in pf or "hashseed:" in pf):
        # F5b: only when the twins have equal texts (otherwise the call fails with DataTypeCollisionError)
        by = {}
        for f in case["files"]:
            if f["id"] in tw:
                by.setdefault((tuple(f["dir"]), f["short"], f["maj"], f["min"]), []).append(f["body"])
        if any(all(b == v[0] for b in v) for v in by.values()):
            for k in known:
                if k["id"] == "F5b":
                    return "F5b two files with one name and version and equal composites are returned as one composite (%s)" % pf.split(":")[1].strip()
    return None


def nontrivial(case, obs):
    for q, o in zip(case["queries"], obs.get("q", [])):
        if "ok" in o and len(o["ok"]["direct"]) + len(o["ok"]["trans"]) >= 2:
            return True
        if "err" in o and case.get("flavor") == "dirs":
            return True
    return False


def describe(case, obs):
    keys = ["flavor:" + case.get("flavor", "?"), "files=%d" % len(case["files"])]
    for q, o in zip(case["queries"], obs.get("q", [])):
        if "ok" in o:
            keys.append("%s:ok:direct=%d:trans=%d" % (q["k"], min(len(o["ok"]["direct"]), 6), min(len(o["ok"]["trans"]), 6)))
        else:
            keys.append("%s:err:%s" % (q["k"], o["err"]))
        for v in q.get("variants", []):
            if v.get("shape", "list") != "list":
                keys.append("shape:" + v["shape"])
            keys.append("spelling:" + ("bare-root" if v.get("bare") else v["how"]) + ("/targets:" + v["how_targets"] if v.get("how_targets") else ""))
    if obs.get("pred_fail"):
        keys.append("pred_fail:" + obs["pred_fail"].split(":")[1].strip()[:12])
    return keys


def shrink(case):
    qs = case["queries"]
    if len(qs) > 1:
        for i in range(len(qs)):
            yield dict(case, queries=[qs[i]])
    for q in qs:
        if q.get("variants"):
            yield dict(case, queries=[dict(x, variants=[]) for x in qs])
            break
    yield from B.shrink(case)
