"""C19 - definitions outside the dependency closure cannot influence the result (uses the library of props/c09.py)."""
import os
import shutil
from props import c09 as B

ID = "C19"
PROPS_FILE = "Props/C19.v"
COQ_IMPORTS = "From PV Require Import Namespace.Reader Namespace.Listing Check.C09 Check.C19."
CASE_TYPE = "C19.case"
CHECK_FN = "C19.check_case"
SHARD = 40
RULE = ("a case is a namespace tree on disk with read_namespace / read_files calls; for every call up to 3 victims are chosen among "
        "the definition files outside the closure of the targets (closure = least set containing the targets and every lookup whose "
        "lower-cased name and version match a reference of a member; computed by the generator, not by the implementation) - in a "
        "lookup directory, or for read_files elsewhere in the targets' own root - and the text of the victim is replaced by one of 14 "
        "replacements and 2 rare ones longer than 1 MiB (binary garbage, empty, syntax error, duplicate attribute, bad union, bad extent, failing @assert, @print, "
        "undefined reference, self reference, service instead of message, deprecated, delimited with another extent, huge array; victims "
        "that are other versions / case variants of a name referenced in the closure are preferred, and a stream of calls that FAIL in "
        "resolution - nonexistent version of a name that has other versions, wrong case, wrong namespace - is included), or "
        "an unreferenced definition is ADDED whose port-ID collides with a target's, or whose version conflicts with a member of the "
        "closure in extent / sealing / kind; the call is repeated and must return the identical observation (types, handler calls, set "
        "of opened files; for a failing call: error class, file the error is located in, handler calls, opened files - never the error "
        "text) and must not open the victim; a separate stream puts a malformed file name into a directory; "
        "non-trivial = at least one victim was replaced for a call that reads >= 2 files; distinct = by hash of the canonical case")
THEOREMS_NOTE = ("C19_noninterference: equal texts on the closure give equal outcomes (types, handler calls, opened files); "
                 "C19_opened_in_closure: only members of the closure are opened; C19_checks_scope: an unreferenced extra lookup definition "
                 "changes nothing; C19_names_matter: a malformed name in a listed directory is reported")
TRUSTED = ["the file system and DSDLDefinition.text (monkey-patched in the runner to record opened files) are exercised through the implementation only"]
ASSUMPTIONS = ["bodies of the unmodified definitions are sealed structures made of composite fields, uintN fields, @print and @assert false"]
EXPLANATION = ("the theorem quantifies over all texts outside the closure (the model takes the text as a function of the file that is consulted "
               "only when the implementation opens the file); the correspondence compares types, handler calls and the set of opened files "
               "with the model and re-runs each call with replaced / added definitions outside the closure")
LEVEL_TEXT = ("Machine-checked noninterference theorem (Coq, closed under the global context) for the reader model: the outcome is a function of "
              "the file names and of the texts of the closure only; tied to /repo by comparing types, print handler calls and the set of opened "
              "files with the model inside Coq, and by re-running every call after replacing or adding definitions outside the closure.")
LEVEL_NOTE = ("Trusted: Coq kernel + vm_compute; the model corresponds to the code as far as the sampled correspondence shows; the closure used to "
              "pick victims is the over-approximation of the theorem (all case-insensitive candidates), computed independently of the implementation.")
TECHNIQUE = "Coq proof (the model reads texts through a function of the file id; closure as an inductive predicate) + vm_compute correspondence + metamorphic re-runs"

REPLACEMENTS = [
    ("garbage", "\x00\x01\x7f %%% \xff garbage \n\t<<<>>>\n"),
    ("empty", ""),
    ("syntax", "uint8 a b c\n@sealed\n"),
    ("dup_attr", "uint8 a\nuint8 a\n@sealed\n"),
    ("bad_union", "@union\nuint8 a\n@sealed\n"),
    ("bad_extent", "uint64 a\n@extent 8\n"),
    ("assert", "uint8 a\n@assert false\n@sealed\n"),
    ("print", "@print \"VICTIM\"\nuint8 a\n@sealed\n"),
    ("undefined_ref", "no.such.Type.1.0 a\n@sealed\n"),
    ("self_ref", None),   # filled in per victim
    ("service", "uint8 a\n@sealed\n---\nuint8 b\n@sealed\n"),
    ("deprecated", "@deprecated\nuint8 a\n@sealed\n"),
    ("delimited", "uint8 a\n@extent 4096\n"),
    ("huge", "uint8[<=4000000000] a\n@sealed\n"),
]
# longer than 1 MiB: a valid definition padded with a comment, and garbage (few cases: they are slow to write)
BIG = [("big_valid", "uint8 a\n@sealed\n#" + "x" * (2 ** 20 + 10) + "\n"), ("big_garbage", "\x01%%<<" * (2 ** 18 + 3))]


# ----------------------------------------------------------------------------------------------------------------
# the closure, computed from the abstract case (mirrors Namespace/Closure.v `reach`, not the implementation)


def query_dirs(case, q):
    files = {f["id"]: f for f in case["files"]}
    if q["k"] == "ns":
        return [q["root"]] + q["lookups"], [f["id"] for f in case["files"] if f["ext"] != "txt" and B.is_under(q["root"], f)]
    roots = []
    for i in q["targets"]:
        for r in q["roots"]:
            if B.is_under(r, files[i]):
                roots.append(r)
                break
    return q["lookups"] + roots + q["roots"], list(q["targets"])


def closure(case, q):
    dirs, targets = query_dirs(case, q)
    L = []
    seen = set()
    for r in dirs:
        if tuple(r) in seen:
            continue
        seen.add(tuple(r))
        for f in case["files"]:
            if f["ext"] != "txt" and B.is_under(r, f):
                L.append((B.rel_ns(r, f), f))
    clo = set(targets)
    work = list(targets)
    while work:
        i = work.pop()
        for ns, f in L:
            if f["id"] != i:
                continue
            for it in f["body"]:
                if it[0] != "ref":
                    continue
                full = it[1] if "." in it[1] else ns + "." + it[1]
                for ns2, g in L:
                    if (ns2 + "." + g["short"]).lower() == full.lower() and (g["maj"], g["min"]) == (it[2], it[3]) and g["id"] not in clo:
                        clo.add(g["id"])
                        work.append(g["id"])
    return clo, [f["id"] for _, f in L], dirs


def closure_members_with_ns(case, q, clo):
    dirs, _ = query_dirs(case, q)
    out = []
    for f in case["files"]:
        if f["id"] in clo:
            for r in dirs:
                if B.is_under(r, f):
                    out.append((B.rel_ns(r, f), f))
                    break
    return out


# ----------------------------------------------------------------------------------------------------------------
# generator


def gen_mutations(rng, case, q):
    clo, listed, dirs = closure(case, q)
    files = {f["id"]: f for f in case["files"]}
    muts = []
    victims = [i for i in sorted(set(listed)) if i not in clo]
    if q["k"] == "files":
        # also definitions that are not even listed
        victims += [f["id"] for f in case["files"] if f["ext"] != "txt" and f["id"] not in clo and f["id"] not in victims]
    rng.shuffle(victims)
    # first the outsiders that are "near" the closure: other versions / case variants of something a member refers to
    near_names = set()
    for ns, f in closure_members_with_ns(case, q, clo):
        for it in f["body"]:
            if it[0] == "ref":
                near_names.add((it[1] if "." in it[1] else ns + "." + it[1]).lower())
    def is_near(i):
        f = files[i]
        return any((B.rel_ns(r, f) + "." + f["short"]).lower() in near_names for r in dirs if B.is_under(r, f))
    victims.sort(key=lambda i: 0 if is_near(i) else 1)
    for v in victims[:3]:
        kind, text = rng.choice(REPLACEMENTS)
        if rng.random() < 0.012:
            kind = rng.choice(BIG)[0]
            text = None                      # the text is produced by the runner (not stored in the case)
        if kind == "self_ref":
            text = "%s.%d.%d a\n@sealed\n" % (files[v]["short"], files[v]["maj"], files[v]["min"])
        muts.append({"m": "text", "file": v, "kind": kind, "text": text})
    # an added, unreferenced definition in a directory that is listed as lookup but is not the target root of read_namespace
    if rng.random() < 0.6 and clo:
        add_dirs = [d for d in dirs if not (q["k"] == "ns" and d == q["root"])]
        members = [files[i] for i in sorted(clo)]
        if add_dirs:
            d = rng.choice(add_dirs)
            m = rng.choice(members)
            how = rng.choice(["port", "extent", "kind", "sealing", "same_version_elsewhere"])
            if how == "port":
                # the target gets no port in the model; collide with a port that a target really has, if any
                ported = [x for x in members if x.get("port") is not None]
                port = ported[0]["port"] if ported else 7001
                muts.append({"m": "add", "dir": d + ["zq"], "base": "%d.Extra.1.0.dsdl" % port, "kind": "add_port", "text": "uint8 a\n@sealed\n"})
            else:
                # same directory (hence same full name) and same major as a member of the closure, a minor nobody refers to
                text = {"extent": "uint64[9] a\n@sealed\n", "kind": "uint8 a\n@sealed\n---\n@sealed\n", "sealing": "uint8 a\n@extent 1024\n",
                        "same_version_elsewhere": "uint8 q\n@sealed\n"}[how]
                if q["k"] == "ns" and B.is_under(q["root"], m):
                    pass                      # adding next to a target of read_namespace would add a target
                else:
                    # a minor version that no file of that name has and that nobody refers to
                    used = {(f["maj"], f["min"]) for f in case["files"] if f["dir"] == m["dir"] and f["short"] == m["short"]}
                    used |= {(it[2], it[3]) for f in case["files"] for it in f["body"] if it[0] == "ref"}
                    mn = next(k for k in range(77, 200) if (m["maj"], k) not in used)
                    muts.append({"m": "add", "dir": m["dir"], "base": "%s.%d.%d.dsdl" % (m["short"], m["maj"], mn), "kind": "add_" + how, "text": text})
    return muts


def gen_case(rng, tier):
    flavor = rng.choice(["plain", "plain", "plain", "plain", "errors", "twins", "badname", "failing", "failing", "digits"])
    opts = {"print_p": 0.3, "missing_p": 0.0, "badrel_p": 0.0, "fault_p": 0.0}
    if flavor == "errors":
        opts = {"print_p": 0.3, "missing_p": 0.03, "badrel_p": 0.02, "fault_p": 0.03, "cycle_p": 0.1}
    if flavor == "failing":
        # calls that FAIL in resolution: references to versions that do not exist (of names that have other versions),
        # wrongly spelled or wrongly placed names; the victims are the other versions / look-alikes outside the closure
        opts = {"print_p": 0.4, "missing_p": 0.3, "badrel_p": 0.05, "fault_p": 0.0, "wrongcase_p": 0.08, "case_names": rng.random() < 0.3}
    roots = B.pick_dirs(rng)
    if len(roots) == 1 or rng.random() < 0.5:
        roots.append(["c", "lib"])
    n = rng.randrange(4, 13 if tier == "quick" else 18)
    defs = B.gen_defs(rng, roots, n, opts)
    # keep versions of one name layout-compatible most of the time: the interesting calls are the successful ones
    B.gen_bodies(rng, roots, defs, opts)
    if flavor != "errors":
        seen = {}
        for f in defs:
            k = (tuple(f["dir"]), f["short"], f["maj"])
            if k in seen and f["maj"] > 0:
                f["body"] = [list(x) for x in seen[k]["body"]]
            seen.setdefault(k, f)
    unreg = rng.random() < 0.25        # calls with allow_unregulated_fixed_port_id=False (the default), some port-IDs unregulated
    for f in defs:
        if rng.random() < 0.12:
            f["port"] = 7000 + rng.choice([f["id"], f["id"], 0, 1])          # collisions between unrelated definitions on purpose
            if unreg and rng.random() < 0.4:
                f["port"] = rng.choice([100, 6143, 7168, 8000]) + f["id"]     # outside the vendor range 6144..7167
    if flavor == "twins":
        defs.append(B.make_twin(rng, defs, rng.choice(defs), True))
    if flavor == "digits":
        B.add_digits(rng, roots, defs, both=True)
    if flavor == "badname":
        o = rng.choice(defs)
        bad = rng.choice(["%s.1.dsdl", "%s.x.0.dsdl", "1.2.%s.1.0.dsdl", "%s.1.0.0.0.dsdl", "x.%s.1.0.dsdl", "%s.-1.0.dsdl", "%s.dsdl"]) % o["short"]
        defs.append(dict(o, id=len(defs), base=bad, bad=True, body=[["plain", 8]], port=None))
    qs = []
    for r in roots:
        if rng.random() < 0.6:
            lk = [x for x in roots if x != r and rng.random() < 0.85]
            qs.append({"k": "ns", "root": list(r), "lookups": lk, "allow": True})
    ids = [f["id"] for f in defs if not f.get("bad")]
    for _ in range(rng.choice([1, 2, 2, 3])):
        ts = [rng.choice(ids) for _ in range(rng.choice([1, 1, 2, 3]))]
        if rng.random() < 0.5:
            qs.append({"k": "files", "targets": ts, "roots": [list(r) for r in roots], "lookups": []})
        else:
            files = {f["id"]: f for f in defs}
            trs = []
            for t in ts:
                r = B.natural_root(roots, files[t])
                if r not in trs:
                    trs.append(r)
            qs.append({"k": "files", "targets": ts, "roots": trs, "lookups": [list(r) for r in roots if r not in trs and rng.random() < 0.8]})
    case = {"files": defs, "queries": qs, "flavor": flavor, "dirs": [list(r) for r in roots]}
    if unreg:
        case["allow_unreg"] = False
    for q in qs:
        q["mutations"] = gen_mutations(rng, case, q)
    return case


def corpus():
    ns, lk = ["a", "ns"], ["b", "lk"]
    fs = [B.mkfile(0, ns, "A", 1, 0, [["ref", "lk.L", 1, 0, 0], ["print"]], port=7000), B.mkfile(1, ns, "B", 1, 0, [["plain", 8]]),
          B.mkfile(2, lk, "L", 1, 0, [["print"], ["plain", 8]]), B.mkfile(3, lk, "Unused", 1, 0, [["plain", 8]]),
          B.mkfile(4, lk, "L", 1, 1, [["plain", 8]]), B.mkfile(5, ns + ["s"], "Other", 1, 0, [["ref", "ns.B", 1, 0, 0]])]
    rep = dict(REPLACEMENTS)
    qs = [{"k": "ns", "root": ns, "lookups": [lk], "allow": True,
           "mutations": [{"m": "text", "file": 3, "kind": k, "text": rep[k]} for k in ("garbage", "assert", "print", "service")] +
                        [{"m": "text", "file": 3, "kind": k, "text": None} for k in ("big_valid", "big_garbage")] +
                        [{"m": "text", "file": 4, "kind": "delimited", "text": rep["delimited"]},
                         {"m": "add", "dir": lk + ["zq"], "base": "7000.Extra.1.0.dsdl", "kind": "add_port", "text": "uint8 a\n@sealed\n"},
                         {"m": "add", "dir": lk, "base": "L.1.9.dsdl", "kind": "add_kind", "text": "uint8 a\n@sealed\n---\n@sealed\n"}]},
          {"k": "files", "targets": [0], "roots": [ns, lk], "lookups": [],
           "mutations": [{"m": "text", "file": 1, "kind": "garbage", "text": rep["garbage"]}, {"m": "text", "file": 5, "kind": "assert", "text": rep["assert"]},
                         {"m": "text", "file": 3, "kind": "print", "text": rep["print"]},
                         {"m": "add", "dir": ns, "base": "7000.Extra.1.0.dsdl", "kind": "add_port", "text": "uint8 a\n@sealed\n"},
                         {"m": "add", "dir": ns, "base": "A.1.9.dsdl", "kind": "add_extent", "text": "uint64[9] a\n@sealed\n"}]}]
    bad = [B.mkfile(0, ns, "A", 1, 0, [["plain", 8]]), B.mkfile(1, lk, "L", 1, 0, []), dict(B.mkfile(2, lk, "L", 1, 0, []), base="L.1.dsdl", bad=True),
           B.mkfile(3, ["c", "em"], "E", 1, 0, [])]
    qb = [{"k": "ns", "root": ns, "lookups": [lk], "allow": True, "mutations": []}, {"k": "ns", "root": ns, "lookups": [], "allow": True, "mutations": []},
          {"k": "files", "targets": [0], "roots": [ns], "lookups": [], "mutations": []}, {"k": "files", "targets": [0], "roots": [ns], "lookups": [lk], "mutations": []},
          {"k": "ns", "root": ["d", "empty"], "lookups": [lk], "allow": True, "mutations": []}]
    return [{"files": fs, "queries": qs, "flavor": "corpus", "dirs": [ns, lk]},
            {"files": bad, "queries": qb, "flavor": "corpus-badname", "dirs": [ns, lk, ["d", "empty"]]}]


def generate(rng, tier):
    cases = corpus()
    streams = ["corpus"] * len(cases)
    n = 400 if tier == "quick" else 3500
    for _ in range(n):
        cases.append(gen_case(rng, tier))
        streams.append("random")
    return cases, streams


# ----------------------------------------------------------------------------------------------------------------
# implementation side


def canon_obs(case, o):
    """observations are compared up to the choice between twin files (see Check/C09.v) - only when the case has twins"""
    groups = {}
    for f in case["files"]:
        if f["ext"] != "txt" and not f.get("bad"):
            groups.setdefault((tuple(f["dir"]), f["short"], f["maj"], f["min"]), []).append(f["id"])
    cm = {i: min(v) for v in groups.values() if len(v) > 1 for i in v}
    if not cm:
        return o
    c = lambda i: cm.get(i, i)  # noqa: E731

    def tree(t):
        return [c(t[0]), t[1], t[2], t[3], [tree(k) for k in t[4]]]

    if "ok" in o:
        k = o["ok"]
        return {"ok": {"direct": [tree(t) for t in k["direct"]], "trans": [tree(t) for t in k["trans"]],
                       "deliv": sorted([c(a), c(b), l] for a, b, l in k["deliv"]), "opened": k["opened"]}}
    return {"err": o["err"], "path": c(o["path"]) if o.get("path") is not None else None,
            "deliv": sorted([c(a), c(b), l] for a, b, l in o["deliv"]), "opened": sorted(set(c(i) for i in o["opened"]))}


def run_impl(cases):
    out = []
    B._patch_text()  # pylint: disable=protected-access
    import logging
    logging.disable(logging.CRITICAL)
    for case in cases:
        base = B.case_dir()
        cwd = os.getcwd()
        obs = []
        fail = None
        files = {f["id"]: f for f in case["files"]}
        try:
            idmap = B.materialise(base, case)
            os.chdir(base)
            for qi, q in enumerate(case["queries"]):
                o = B.run_query(base, case, q, idmap, err_detail=True)
                obs.append(o)
                for m in q.get("mutations", []):
                    if m["m"] == "text":
                        f = files[m["file"]]
                        p = os.path.join(base, *f["dir"], B.basename(f))
                        vid = f["id"]
                        created_dir = None
                    else:
                        d = os.path.join(base, *m["dir"])
                        created_dir = d if not os.path.isdir(d) else None
                        os.makedirs(d, exist_ok=True)
                        p = os.path.join(d, m["base"])
                        if os.path.exists(p):
                            continue
                        vid = 100000
                        idmap[os.path.realpath(p)] = vid
                    old = open(p, "rb").read() if m["m"] == "text" else None
                    with open(p, "w", encoding="latin-1") as fh:
                        fh.write(m["text"] if m.get("text") is not None else dict(BIG)[m["kind"]])
                    try:
                        o2 = B.run_query(base, case, q, idmap, err_detail=True)
                    finally:
                        if old is not None:
                            with open(p, "wb") as fh:
                                fh.write(old)
                        else:
                            os.unlink(p)
                            idmap.pop(os.path.realpath(p), None)
                            if created_dir:
                                os.rmdir(created_dir)
                    if fail:
                        continue
                    if canon_obs(case, o2) != canon_obs(case, o):
                        fail = "query %d, %s of file %s: outcome changed from %s to %s" % (qi, m["kind"], m.get("file", m.get("base")), str(o)[:300], str(o2)[:300])
                    elif vid in (o2["ok"] if "ok" in o2 else o2)["opened"] or any(d[1] in (vid, -2) for d in (o2["ok"] if "ok" in o2 else o2)["deliv"]):
                        fail = "query %d, %s: the definition outside the closure was opened" % (qi, m["kind"])
        finally:
            os.chdir(cwd)
            shutil.rmtree(base, ignore_errors=True)
        r = {"q": obs}
        if fail:
            r["pred_fail"] = fail
        out.append(r)
    return out


# ----------------------------------------------------------------------------------------------------------------


def emit(case, obs):
    return B.emit_case_with("C09.mkCase", case, obs)


def model_eval(case, obs):
    return B.model_eval(case, obs)


def nontrivial(case, obs):
    for q, o in zip(case["queries"], obs.get("q", [])):
        if q.get("mutations") and "ok" in o and len(o["ok"]["opened"]) >= 2:
            return True
    return False


def describe(case, obs):
    keys = ["flavor:" + case.get("flavor", "?"), "files=%d" % len(case["files"])]
    for q, o in zip(case["queries"], obs.get("q", [])):
        keys.append("%s:%s" % (q["k"], "ok:opened=%d" % min(len(o["ok"]["opened"]), 8) if "ok" in o else "err:" + o["err"]))
        if "ok" in o and o["ok"]["deliv"]:
            keys.append("handler-called")
        for m in q.get("mutations", []):
            keys.append("victim:" + m["kind"] + (":call-fails" if "err" in o else ""))
    if obs.get("pred_fail"):
        keys.append("pred_fail")
    return keys


def shrink(case):
    qs = case["queries"]
    if len(qs) > 1:
        for i in range(len(qs)):
            yield dict(case, queries=[qs[i]])
    for qi, q in enumerate(qs):
        ms = q.get("mutations", [])
        if len(ms) > 1:
            for m in ms:
                yield dict(case, queries=qs[:qi] + [dict(q, mutations=[m])] + qs[qi + 1:])
    # dropping files would invalidate the closure computation: only body items of files are dropped
    files = case["files"]
    for i, f in enumerate(files):
        for j in range(len(f["body"])):
            g = dict(f, body=f["body"][:j] + f["body"][j + 1:])
            yield dict(case, files=files[:i] + [g] + files[i + 1:])
