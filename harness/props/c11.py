"""C11 - port-ID and minor-version consistency rules: generator, implementation runner, emitter.

A case is a set of minimal definitions placed in a target root namespace directory `t/ns` and a lookup root namespace
directory `l/ns` (same root namespace name, so one full name may have versions in both).  It is read with
read_namespace (every file of t/ns is a target) or read_files (a subset of t/ns is the target list).  The model gets
the summaries (name, version, kind, port-ID, extent/sealing per section) of the definitions that are read: `direct` =
the targets, `transitive` = what is reachable from them through references (`@print ns.X.1.0` in the referrer - a
reference that does not change the referrer's layout).
"""
import os
import gallina as G

ID = "C11"
PROPS_FILE = "Props/C11.v"
COQ_IMPORTS = "From PV Require Import Util.ListSet Namespace.CrossRules Check.C11."
CASE_TYPE = "C11.case"
CHECK_FN = "C11.check_case"
SHARD = 250
RULE = ("a case is a set of 2-8 definition files over 1-3 full names (one exhaustive family has exactly 2) written to a target and a "
        "lookup root namespace directory and read with read_namespace or read_files (allow_unregulated_fixed_port_id=True); "
        "non-trivial = at least two of the definitions that are read share a full name or a fixed port-ID; distinct = by hash of the case")
THEOREMS_NOTE = ("C11_iff: run direct transitive = Accept <-> Conforming direct (transitive ++ direct); C11_ports, C11_minor(_full), "
                 "C11_pairwise characterise the two loops")
TRUSTED = ["which definitions are read (direct / transitive) is computed by the harness from the references it wrote and cross-checked "
           "against the composites the implementation returns whenever it accepts (names, versions, kinds, port-IDs, extents, sealing)"]
ASSUMPTIONS = ["two files with the same full name and version whose composites compare equal (same class and bit length set; open finding "
               "F5b of C10) are not generated: the implementation collapses them before the C11 checks run"]
EXPLANATION = ("the theorems cover every finite list of summaries; the correspondence compares accept / InvalidDefinitionError of "
               "read_namespace and read_files with the model on generated namespaces, including an exhaustive two-definition grid")
LEVEL_TEXT = ("Machine-checked theorems (Coq, closed under the global context): the model of _ensure_no_fixed_port_id_collisions and "
              "_ensure_minor_version_compatibility(_pairwise) accepts a list of definitions iff the declarative conformity of the property "
              "holds (port-ID sharing only within one name with equal majors or a major 0; per (name, major): unique versions, one kind, "
              "port-ID equal or added by the newer minor, for major >= 1 equal extent and sealing per section), for every list, and the "
              "verdict is invariant under permutation. The model is tied to /repo by comparing verdicts of read_namespace/read_files on "
              "generated namespaces inside Coq.")
LEVEL_NOTE = ("Trusted: Coq kernel + vm_compute; the correspondence is sampled; the summaries handed to the model are those of the rendered "
              "definitions (cross-checked against the returned composites on acceptance).")
TECHNIQUE = "Coq proof (boolean reflection of the pairwise loops against a declarative specification); vm_compute correspondence on on-disk namespaces"

NAMES = ["Alpha", "Bravo", "Charlie"]
ROOT = "ns"

# ----------------------------------------------------------------------------------------------------------------
# case utilities (shared by generator, runner, emitter)


def key(d):
    return (d["n"], d["mj"], d["mn"])


def lay_extent(l):
    sealed, n, e = l
    return 8 * n if sealed else e


def file_name(d):
    base = "%s.%d.%d.%s" % (d["n"], d["mj"], d["mn"], d.get("ext", "dsdl"))
    return base if d["p"] is None else "%d.%s" % (d["p"], base)


def py_equal(a, b):
    """Would the two composites compare equal in the implementation (same str, class and bit length set)?"""
    if key(a) != key(b) or a["k"] != b["k"]:
        return False
    if a["k"] == "s":
        return True  # services are not serializable: equality falls back to the class
    la, lb = a["lays"][0], b["lays"][0]
    return bool(la[0]) == bool(lb[0]) and lay_extent(la) == lay_extent(lb)


def render(case, i):
    d = case["defs"][i]
    out = []
    for si, l in enumerate(d["lays"]):
        if si:
            out.append("---")
        sealed, n, e = l
        if n > 0:
            out.append("uint8[%d] x%d_%d" % (n, i, si))
        out.append("@sealed" if sealed else "@extent %d" % e)
        if si == 0:
            for j in d["refs"]:
                r = case["defs"][j]
                out.append("@print %s.%s.%d.%d" % (ROOT, r["n"], r["mj"], r["mn"]))
    return "\n".join(out) + "\n"


def read_sets(case):
    """(direct, transitive) as index lists: what the implementation reads if nothing is rejected on the way."""
    defs = case["defs"]
    if case["mode"] == "ns":
        direct = [i for i, d in enumerate(defs) if d["place"] == "t"]
    else:
        direct = [i for i, d in enumerate(defs) if d["place"] == "t" and d["target"]]
    seen = set(direct)
    trans = []
    todo = list(direct)
    while todo:
        i = todo.pop()
        for j in defs[i]["refs"]:
            k = key(defs[j])
            for m, dm in enumerate(defs):
                if key(dm) == k and m not in seen:
                    seen.add(m)
                    trans.append(m)
                    todo.append(m)
    return direct, sorted(trans)


def summary(d):
    return [ROOT + "." + d["n"], d["mj"], d["mn"], d["k"], d["p"], [[lay_extent(l), bool(l[0])] for l in d["lays"]]]


# python mirror of the rules: used ONLY for the histogram and for steering the generator, never for a verdict
def reasons(direct, allv):
    out = set()
    for a in direct:
        for b in direct:
            if (a["k"] == b["k"]) and (a["n"] != b["n"] or (a["mj"] != b["mj"] and a["mj"] > 0 and b["mj"] > 0)):
                if a["p"] is not None and a["p"] == b["p"]:
                    out.add("port-collision")
    for i, a in enumerate(allv):
        for j, b in enumerate(allv):
            if i == j or a["n"] != b["n"] or a["mj"] != b["mj"]:
                continue
            if a["mn"] == b["mn"]:
                out.add("same-version")
                continue
            if a["k"] != b["k"]:
                out.add("kind")
                continue
            if (a["p"] is None) == (b["p"] is None):
                if a["p"] != b["p"]:
                    out.add("port-changed")
            else:
                newer = a if a["mn"] > b["mn"] else b
                if newer["p"] is None:
                    out.add("port-removed")
            if a["mj"] > 0:
                for la, lb in zip(a["lays"], b["lays"]):
                    if lay_extent(la) != lay_extent(lb):
                        out.add("extent")
                    if bool(la[0]) != bool(lb[0]):
                        out.add("sealing")
    return out


# ----------------------------------------------------------------------------------------------------------------
# generator


def gen_lay(rng):
    sealed = rng.random() < 0.55
    n = rng.choice([0, 1, 1, 2, 2, 3])
    if sealed:
        return [True, n, 8 * n]
    return [False, n, 8 * n + 8 * rng.choice([0, 0, 1, 2])]


def lay_with_extent(rng, sealed, extent):
    """A section with the given sealing and extent (extent is a multiple of 8)."""
    if sealed:
        return [True, extent // 8, extent]
    return [False, rng.randrange(0, extent // 8 + 1), extent]


def perturb_lay(rng, l):
    r = rng.random()
    e = lay_extent(l)
    if r < 0.4:   # same extent, other sealing
        return lay_with_extent(rng, not l[0], e)
    if r < 0.8:   # same sealing, other extent
        return lay_with_extent(rng, l[0], max(0, e + rng.choice([-8, 8, 16])))
    return gen_lay(rng)


def conflicts(d, others):
    """same file would be written twice, or an F5b collapse"""
    for o in others:
        if key(o) == key(d):
            if py_equal(o, d):
                return True
            if o["place"] == d["place"] and file_name(o) == file_name(d):
                return True
    return False


def gen_case(rng, tier, allow_dups):
    nnames = rng.choice([1, 1, 2, 2, 3])
    names = rng.sample(NAMES, nnames)
    ndefs = rng.randrange(2, 9)
    # 0 is a valid port-ID (and falsy in Python); 511 / 8191 are the largest service / subject identifiers
    port_pool = rng.choice([[1, 2], [0, 1], [0, 7, 511], [0], [1, 2, 3], [7, 300, 511], [0, 8191], [511, 8191], [1]])
    base = {}
    for n in names:
        k = "s" if rng.random() < 0.3 else "m"
        base[n] = {"k": k, "p": rng.choice([None] + port_pool), "lays": [gen_lay(rng) for _ in range(2 if k == "s" else 1)],
                   "mj": rng.choice([0, 1, 1, 2]), "noise": rng.choice([0.0, 0.1, 0.25, 0.5])}
    defs = []
    tries = 0
    while len(defs) < ndefs and tries < 200:
        tries += 1
        n = rng.choice(names)
        b = base[n]
        noise = b["noise"]
        k = b["k"] if rng.random() >= noise * 0.5 else ("m" if b["k"] == "s" else "s")
        mj = b["mj"] if rng.random() < 0.7 else rng.choice([0, 1, 2, 3])
        mn = rng.choice([0, 1, 2, 3, 3, 255] if rng.random() < 0.9 else [7, 10, 100])
        if mj == 0 and mn == 0:
            mn = 1
        r = rng.random()
        if r >= noise:
            p = b["p"]
        else:
            p = rng.choice([None, None] + port_pool)
        lays = []
        for si in range(2 if k == "s" else 1):
            bl = b["lays"][si] if si < len(b["lays"]) else gen_lay(rng)
            lays.append(list(bl) if rng.random() >= noise else perturb_lay(rng, bl))
        if p is not None and k == "s" and p > 511:
            p = 511       # the largest valid service-ID
        d = {"n": n, "mj": mj, "mn": mn, "k": k, "p": p, "lays": lays, "place": "t" if rng.random() < 0.65 else "l",
             "target": rng.random() < 0.7, "refs": [], "ext": "dsdl" if rng.random() < 0.9 else "uavcan"}
        dup = any(key(o) == key(d) for o in defs)
        if dup and not allow_dups:
            continue
        if conflicts(d, defs):
            continue
        defs.append(d)
    # at least one target
    if not any(d["place"] == "t" for d in defs):
        defs[0]["place"] = "t"
        if conflicts(defs[0], defs[1:]):
            return gen_case(rng, tier, allow_dups)
    ts = [d for d in defs if d["place"] == "t"]
    if not any(d["target"] for d in ts):
        rng.choice(ts)["target"] = True
    # references: j is referred to by some i that precedes it in a random order (acyclic), keys must differ
    order = list(range(len(defs)))
    rng.shuffle(order)
    pos = {i: k for k, i in enumerate(order)}
    for j, d in enumerate(defs):
        want = 0.75 if d["place"] == "l" else 0.25
        if rng.random() < want:
            cands = [i for i in range(len(defs)) if pos[i] < pos[j] and key(defs[i]) != key(d)]
            if cands:
                i = rng.choice(cands)
                if j not in defs[i]["refs"]:
                    defs[i]["refs"].append(j)
    return {"mode": "ns" if rng.random() < 0.5 else "files", "defs": defs}


def mkdef(n, mj, mn, k, p, lays, place="t", target=True, refs=None, ext="dsdl"):
    return {"n": n, "mj": mj, "mn": mn, "k": k, "p": p, "lays": lays, "place": place, "target": target, "refs": refs or [], "ext": ext}


S8, S16, D8, D16 = [True, 1, 8], [True, 2, 16], [False, 1, 8], [False, 1, 16]
LAY_PAIRS = [(S8, S8), (S8, S16), (S8, D8), (D8, D8), (D8, D16)]


def grid():
    """Every combination of the interacting conditions for two definitions."""
    out = []
    for same_name in (True, False):
        for mja, mjb in [(0, 0), (0, 1), (1, 0), (1, 1), (1, 2)]:
            for mna, mnb in [(1, 2), (2, 1), (1, 1)]:
                for pa, pb in [(None, None), (None, 1), (1, None), (1, 1), (1, 2),
                               (0, None), (None, 0), (0, 0), (0, 7), (7, 0), (511, None), (None, 511), (511, 511), (511, 0),
                               (8191, None), (8191, 8191), (8191, 0), (0, 8191)]:
                    for ka in "ms":
                        for kb in "ms":
                            if (ka == "s" and (pa or 0) > 511) or (kb == "s" and (pb or 0) > 511):
                                continue      # not a valid service-ID: rejected for another reason
                            if ka == "s" and kb == "s":
                                lps = [([x, S8], [y, S8]) for x, y in LAY_PAIRS] + [([D8, x], [D8, y]) for x, y in LAY_PAIRS[1:]]
                            else:
                                lps = [([x] + ([S8] if ka == "s" else []), [y] + ([S8] if kb == "s" else [])) for x, y in LAY_PAIRS]
                            for la, lb in lps:
                                for placing in ("tt", "tl-ref", "tl-noref", "files-one", "files-ref"):
                                    a = mkdef("Alpha", mja, mna, ka, pa, [list(x) for x in la])
                                    b = mkdef("Alpha" if same_name else "Bravo", mjb, mnb, kb, pb, [list(x) for x in lb])
                                    mode = "ns"
                                    if placing == "tl-ref":
                                        b["place"] = "l"
                                        a["refs"] = [1]
                                    elif placing == "tl-noref":
                                        b["place"] = "l"
                                    elif placing == "files-one":
                                        mode = "files"
                                        b["target"] = False
                                    elif placing == "files-ref":
                                        mode = "files"
                                        b["target"] = False
                                        a["refs"] = [1]
                                    if key(a) == key(b):
                                        if a["refs"]:
                                            continue  # a definition cannot refer to its own name and version
                                        if py_equal(a, b):
                                            continue  # F5b region
                                        if a["place"] == b["place"] and file_name(a) == file_name(b):
                                            b["ext"] = "uavcan"
                                    out.append({"mode": mode, "defs": [a, b]})
    return out


def corpus():
    out = []
    # the scenario of the upstream test: port added in a newer minor is fine, removed is not
    out.append({"mode": "ns", "defs": [mkdef("Alpha", 1, 0, "m", None, [list(S8)]), mkdef("Alpha", 1, 1, "m", 7, [list(S8)])]})
    out.append({"mode": "ns", "defs": [mkdef("Alpha", 1, 0, "m", 7, [list(S8)]), mkdef("Alpha", 1, 1, "m", None, [list(S8)])]})
    # port-ID 0 is a port-ID: it cannot be removed or changed either, and it collides like any other (seeded C11-2)
    out.append({"mode": "ns", "defs": [mkdef("Alpha", 1, 0, "m", 0, [list(S8)]), mkdef("Alpha", 1, 1, "m", None, [list(S8)])]})
    out.append({"mode": "ns", "defs": [mkdef("Alpha", 1, 0, "m", 0, [list(S8)]), mkdef("Alpha", 1, 1, "m", 7, [list(S8)])]})
    out.append({"mode": "ns", "defs": [mkdef("Alpha", 1, 0, "m", None, [list(S8)]), mkdef("Alpha", 1, 1, "m", 0, [list(S8)])]})
    out.append({"mode": "ns", "defs": [mkdef("Alpha", 1, 1, "s", 0, [list(S8), list(S8)]), mkdef("Alpha", 1, 0, "s", 0, [list(S8), list(S8)])]})
    out.append({"mode": "ns", "defs": [mkdef("Alpha", 1, 0, "s", 0, [list(S8), list(S8)]), mkdef("Alpha", 1, 2, "s", 511, [list(S8), list(S8)])]})
    out.append({"mode": "ns", "defs": [mkdef("Alpha", 1, 0, "m", 0, [list(S8)]), mkdef("Bravo", 1, 0, "m", 0, [list(S8)])]})
    out.append({"mode": "ns", "defs": [mkdef("Alpha", 1, 0, "m", 8191, [list(S8)]), mkdef("Alpha", 1, 1, "m", None, [list(S8)])]})
    # major 0 exemption of the collision rule, and its limits
    out.append({"mode": "ns", "defs": [mkdef("Alpha", 0, 1, "m", 7, [list(S8)]), mkdef("Alpha", 1, 0, "m", 7, [list(S16)])]})
    out.append({"mode": "ns", "defs": [mkdef("Alpha", 0, 1, "m", 7, [list(S8)]), mkdef("Bravo", 0, 1, "m", 7, [list(S8)])]})
    out.append({"mode": "ns", "defs": [mkdef("Alpha", 2, 0, "m", 7, [list(S8)]), mkdef("Alpha", 1, 0, "m", 7, [list(S8)])]})
    # subjects and services are orthogonal
    out.append({"mode": "ns", "defs": [mkdef("Alpha", 1, 0, "m", 7, [list(S8)]), mkdef("Bravo", 1, 0, "s", 7, [list(S8), list(S8)])]})
    # the response of a service is checked too
    out.append({"mode": "ns", "defs": [mkdef("Alpha", 1, 0, "s", None, [list(S8), list(D8)]), mkdef("Alpha", 1, 1, "s", None, [list(S8), list(D16)])]})
    out.append({"mode": "ns", "defs": [mkdef("Alpha", 1, 0, "s", None, [list(S8), list(D8)]), mkdef("Alpha", 1, 1, "s", None, [list(S8), list(S8)])]})
    # a collision located in the lookup namespace only is ignored; a minor-version conflict with a referenced lookup definition is not
    out.append({"mode": "ns", "defs": [mkdef("Alpha", 1, 0, "m", 7, [list(S8)], refs=[1, 2]), mkdef("Bravo", 1, 0, "m", 9, [list(S8)], place="l"),
                                       mkdef("Charlie", 1, 0, "m", 9, [list(S8)], place="l")]})
    out.append({"mode": "ns", "defs": [mkdef("Alpha", 1, 0, "m", 7, [list(S8)], refs=[1]), mkdef("Alpha", 1, 1, "m", 7, [list(S16)], place="l")]})
    out.append({"mode": "ns", "defs": [mkdef("Alpha", 1, 0, "m", 7, [list(S8)]), mkdef("Alpha", 1, 1, "m", 7, [list(S16)], place="l")]})
    # F5a: same name and version, different composites
    out.append({"mode": "ns", "defs": [mkdef("Alpha", 1, 0, "m", None, [list(S8)]), mkdef("Alpha", 1, 0, "m", None, [list(S16)], ext="uavcan")]})
    out.append({"mode": "files", "defs": [mkdef("Alpha", 1, 0, "m", None, [list(S8)]), mkdef("Alpha", 1, 0, "m", 5, [list(D8)])]})
    return out


def generate(rng, tier):
    cases = corpus()
    streams = ["corpus"] * len(cases)
    g = grid()
    if tier == "quick":
        g = rng.sample(g, 2500)
    cases += g
    streams += ["targeted"] * len(g)
    n = 2500 if tier == "quick" else 30000
    for k in range(n):
        cases.append(gen_case(rng, tier, allow_dups=(k % 8 == 0)))
        streams.append("random")
    return cases, streams


# ----------------------------------------------------------------------------------------------------------------
# implementation side


def canon(x):
    import json
    return json.dumps(x, sort_keys=True)


def classify(ex):
    import pydsdl
    if isinstance(ex, pydsdl.InvalidDefinitionError):
        return "CInvalidDefinition"
    if isinstance(ex, pydsdl.InternalError):
        return "CInternal"
    if isinstance(ex, ValueError):
        return "CValueError"
    if isinstance(ex, TypeError):
        return "CTypeError"
    return "COther"


def observe_composite(t):
    import pydsdl

    def lay(x):
        return [int(x.extent), not isinstance(x, pydsdl.DelimitedType)]

    if isinstance(t, pydsdl.ServiceType):
        k, lays = "s", [lay(t.request_type), lay(t.response_type)]
    else:
        k, lays = "m", [lay(t)]
    return [t.full_name, int(t.version.major), int(t.version.minor), k, t.fixed_port_id, lays]


def run_impl(cases):
    import shutil
    import tempfile
    import pydsdl

    scratch = os.environ["VERIF_SCRATCH"]
    out = []
    for case in cases:
        d = tempfile.mkdtemp(prefix="c11_", dir=scratch)
        try:
            tdir = os.path.join(d, "t", ROOT)
            ldir = os.path.join(d, "l", ROOT)
            os.makedirs(tdir)
            os.makedirs(ldir)
            paths = []
            for i, df in enumerate(case["defs"]):
                p = os.path.join(tdir if df["place"] == "t" else ldir, file_name(df))
                assert not os.path.exists(p), "generator wrote one file twice"
                with open(p, "w") as f:
                    f.write(render(case, i))
                paths.append(p)
            try:
                if case["mode"] == "ns":
                    direct = pydsdl.read_namespace(tdir, [ldir], allow_unregulated_fixed_port_id=True)
                    trans = None
                else:
                    targets = [paths[i] for i, df in enumerate(case["defs"]) if df["place"] == "t" and df["target"]]
                    direct, trans = pydsdl.read_files(targets, [tdir], [ldir], allow_unregulated_fixed_port_id=True)
            except Exception as ex:  # pylint: disable=broad-except
                out.append({"r": classify(ex)})
                continue
            o = {"r": "ok"}
            # harness self-check: the summaries handed to the model are those of the composites that were read
            di, ti = read_sets(case)
            exp_d = sorted(map(canon, [summary(case["defs"][i]) for i in di]))
            got_d = sorted(map(canon, [observe_composite(t) for t in direct]))
            if exp_d != got_d:
                o["pred_fail"] = "the directly read composites differ from the rendered definitions: %s vs %s" % (got_d, exp_d)
            if trans is not None:
                exp_t = sorted(map(canon, [summary(case["defs"][i]) for i in ti]))
                got_t = sorted(map(canon, [observe_composite(t) for t in trans]))
                if exp_t != got_t:
                    o["pred_fail"] = "the transitively read composites differ from the rendered definitions: %s vs %s" % (got_t, exp_t)
            out.append(o)
        finally:
            shutil.rmtree(d, ignore_errors=True)
    return out


# ----------------------------------------------------------------------------------------------------------------
# emission


def emit_summary(d):
    nm = G.codepoints(ROOT + "." + d["n"])
    port = G.opt(G.z(d["p"])) if d["p"] is not None else "None"
    if d["k"] == "m":
        l = d["lays"][0]
        return "(C11.M %s %s %s %s %s %s)" % (nm, G.z(d["mj"]), G.z(d["mn"]), G.z(lay_extent(l)), G.b(l[0]), port)
    q, r = d["lays"]
    return "(C11.S %s %s %s %s %s %s %s %s)" % (nm, G.z(d["mj"]), G.z(d["mn"]), G.z(lay_extent(q)), G.b(q[0]), G.z(lay_extent(r)), G.b(r[0]), port)


def emit(case, obs):
    di, ti = read_sets(case)
    o = "None" if obs["r"] == "ok" else "(Some %s)" % obs["r"]
    return "(C11.mkCase %s %s %s)" % (G.lst([emit_summary(case["defs"][i]) for i in di]), G.lst([emit_summary(case["defs"][i]) for i in ti]), o)


def model_eval(case, obs):
    return ("Eval vm_compute in (map (fun c => (run (C11.direct c) (C11.transitive c), check_ports (C11.direct c), "
            "check_minor (C11.transitive c ++ C11.direct c))) cases).\n")


def _read(case):
    di, ti = read_sets(case)
    return [case["defs"][i] for i in di], [case["defs"][i] for i in ti]


def nontrivial(case, obs):
    d, t = _read(case)
    allv = t + d
    for i, a in enumerate(allv):
        for b in allv[i + 1:]:
            if a["n"] == b["n"] or (a["p"] is not None and a["p"] == b["p"]):
                return True
    return False


def describe(case, obs):
    d, t = _read(case)
    rs = reasons(d, t + d)
    keys = ["mode=" + case["mode"], "defs=%d" % len(case["defs"]), "read:direct=%d" % len(d), "read:transitive=%d" % min(len(t), 4),
            "impl:" + obs["r"], "names=%d" % len({x["n"] for x in case["defs"]})]
    keys += ["violates:" + r for r in sorted(rs)] or ["conforming"]
    if any(x["p"] == 0 for x in t + d):
        keys.append("has-port-0")
    if any(x["p"] in (511, 8191) for x in t + d):
        keys.append("has-port-maximum")
    if any(x["mj"] == 0 for x in t + d):
        keys.append("has-major-0")
    if any(x["k"] == "s" for x in t + d):
        keys.append("has-service")
    if len(case["defs"]) > len(d) + len(t):
        keys.append("has-unread-definitions")
        unread = [x for x in case["defs"] if x not in d and x not in t]
        if reasons(d + unread, t + d + unread) - rs:
            keys.append("violation-only-among-unread")
    return keys


def shrink(case):
    defs = case["defs"]
    n = len(defs)
    for k in range(n):
        if n <= 1:
            break
        nd = []
        for i, d in enumerate(defs):
            if i == k:
                continue
            d2 = dict(d)
            d2["refs"] = [j - (1 if j > k else 0) for j in d["refs"] if j != k]
            nd.append(d2)
        if any(d["place"] == "t" and (case["mode"] == "ns" or d["target"]) for d in nd):
            yield {"mode": case["mode"], "defs": nd}
    for i, d in enumerate(defs):
        for j in d["refs"]:
            d2 = dict(d)
            d2["refs"] = [x for x in d["refs"] if x != j]
            yield {"mode": case["mode"], "defs": defs[:i] + [d2] + defs[i + 1:]}
    if case["mode"] == "files":
        yield {"mode": "ns", "defs": defs}
