#!/usr/bin/env python
"""Entry point of every registered check:  ./check Cxx [--tier quick|thorough] [--replay FILE]

Pipeline (DESIGN.md section 4.1):
  1. proofs      build coq/ (full .vo), re-compile Props/Cxx.v afresh, read Print Assumptions, grep forbidden tokens
  2. generate    corpus ++ targeted ++ random cases (seeded)
  3. run impl    fresh interpreter with PYTHONPATH=/repo, canonical observations
  4. emit        generated case files (Gallina literals) in a scratch directory
  5. evaluate    coqc shards in parallel: the model is evaluated with vm_compute and compared inside Coq
  6. verdict     shrink disagreements, write replay, print VIOLATION / KNOWN-FINDING / OK
  7. evidence    evidence/Cxx.json
"""
import argparse
import concurrent.futures
import fcntl
import hashlib
import importlib
import json
import os
import random
import re
import shutil
import subprocess
import sys
import tempfile
import time

HERE = os.path.dirname(os.path.abspath(__file__))
VERIF = os.path.dirname(HERE)
COQ = os.path.join(VERIF, "coq")
REPO = os.environ.get("VERIF_REPO", "/repo")
PY = "/venv/bin/python"
JOBS = int(os.environ.get("VERIF_JOBS", "16"))
sys.path.insert(0, HERE)

FORBIDDEN = re.compile(
    r"\bAdmitted\b|\badmit\b|\bAxiom\b|\bAxioms\b|\bParameter\b|\bParameters\b|\bConjecture\b|Unset\s+Guard|"
    r"bypass_check|type-in-type|impredicative-set|\bAdmit\s+Obligations\b|Unset\s+Positivity|Unset\s+Universe"
)


def log(*a):
    print(*a, flush=True)


def strip_comments(src):
    out, depth, i = [], 0, 0
    while i < len(src):
        if src.startswith("(*", i):
            depth += 1
            i += 2
        elif src.startswith("*)", i) and depth > 0:
            depth -= 1
            i += 2
        else:
            if depth == 0:
                out.append(src[i])
            i += 1
    return "".join(out)


def forbidden_scan():
    """Fail closed on any forbidden token or a Variable/Hypothesis outside a Section, anywhere in coq/."""
    hits = []
    for root, _, files in os.walk(COQ):
        for f in files:
            if not f.endswith(".v"):
                continue
            p = os.path.join(root, f)
            src = strip_comments(open(p).read())
            for m in FORBIDDEN.finditer(src):
                hits.append("%s: %s" % (os.path.relpath(p, VERIF), m.group(0)))
            depth = 0
            for line in src.splitlines():
                s = line.strip()
                if re.match(r"Section\s+\w+\s*\.", s):
                    depth += 1
                elif re.match(r"End\s+\w+\s*\.", s) and depth > 0:
                    depth -= 1
                elif depth == 0 and re.match(r"(Variable|Variables|Hypothesis|Hypotheses|Context)\b", s):
                    hits.append("%s: %s outside a Section" % (os.path.relpath(p, VERIF), s.split()[0]))
    return hits


def build_coq():
    """Incremental full build under a lock (several checks may run at once)."""
    r = subprocess.run([os.path.join(VERIF, "setup.sh")], capture_output=True, text=True, timeout=3400)  # takes its own lock
    return (r.returncode == 0 and "did not build" not in r.stdout), (r.stdout + r.stderr)[-4000:]


def check_props(prop, scratch):
    """Re-compile Props/Cxx.v afresh; returns (theorems, per-theorem assumptions, ok, log)."""
    src_path = os.path.join(COQ, prop.PROPS_FILE)
    src = open(src_path).read()
    theorems = re.findall(r"^Theorem\s+(\w+)", strip_comments(src), flags=re.M)
    out_vo = os.path.join(scratch, os.path.basename(src_path)[:-2] + ".vo")
    cmd = ["timeout", "900", "coqc", "-R", COQ, "PV", "-o", out_vo, src_path]
    r = subprocess.run(cmd, capture_output=True, text=True, cwd=COQ)
    text = r.stdout + r.stderr
    res = {}
    if r.returncode == 0:
        # Print Assumptions output, in order of appearance
        blocks = []
        cur = None
        for line in r.stdout.splitlines():
            if line.startswith("Closed under the global context"):
                blocks.append([])
                cur = None
            elif line.startswith("Axioms:"):
                cur = []
                blocks.append(cur)
            elif cur is not None and line.strip():
                if re.match(r"^\S", line):
                    cur.append(line.strip())
                elif cur:
                    cur[-1] += " " + line.strip()
        printed = re.findall(r"^Print Assumptions\s+(\w+)", strip_comments(src), flags=re.M)
        for name, b in zip(printed, blocks):
            res[name] = b
    return theorems, res, r.returncode == 0, text[-3000:], " ".join(cmd[2:])


def run_coqchk(prop):
    """Thorough tier: re-check the compiled property file and everything it depends on with the independent checker."""
    mod = "PV." + prop.PROPS_FILE[:-2].replace("/", ".")
    try:
        r = subprocess.run(["timeout", "1500", "coqchk", "-o", "-silent", "-R", COQ, "PV", mod], capture_output=True, text=True, cwd=COQ)
    except Exception as ex:  # pylint: disable=broad-except
        return {"ok": False, "summary": "coqchk could not be run: %s" % ex}
    out = r.stdout + r.stderr
    m = re.search(r"\* Axioms:(.*?)\n\s*\n\* ", out, flags=re.S)
    axioms = (m.group(1).strip() if m else "?")
    allowed = set(getattr(prop, "ALLOWED_AXIOMS", []))
    names = [] if axioms == "<none>" else [a.strip() for a in axioms.splitlines() if a.strip()]
    ok = r.returncode == 0 and m is not None and all(any(n.endswith(a) for a in allowed) for n in names)
    return {"ok": ok, "summary": "coqchk -o %s: axioms = %s; exit %d" % (mod, axioms.replace("\n", " "), r.returncode)}


def run_impl(prop_id, cases, scratch, hashseed="0", extra_env=None, timeout=3000):
    inp = os.path.join(scratch, "impl_in_%s.json" % hashlib.sha1(os.urandom(8)).hexdigest()[:8])
    outp = inp.replace("impl_in_", "impl_out_")
    json.dump(cases, open(inp, "w"))
    env = dict(os.environ)
    env.update({"PYTHONPATH": REPO + os.pathsep + HERE, "PYTHONHASHSEED": str(hashseed), "PYDSDL_VERIF": "1",
                "PYTHONDONTWRITEBYTECODE": "1", "VERIF_SCRATCH": scratch})
    if extra_env:
        env.update(extra_env)
    r = subprocess.run([PY, "-B", os.path.join(HERE, "runner.py"), prop_id, inp, outp], env=env, capture_output=True,
                       text=True, timeout=timeout, cwd=scratch)
    if r.returncode != 0 or not os.path.exists(outp):
        raise RuntimeError("implementation runner failed:\n" + (r.stdout + r.stderr)[-4000:])
    obs = json.load(open(outp))
    os.unlink(inp)
    os.unlink(outp)
    return obs


def run_impl_parallel(prop_id, cases, scratch, **kw):
    """Split the cases over worker processes (order preserved)."""
    n = len(cases)
    if n == 0:
        return []
    per_worker = getattr(importlib.import_module("props.%s" % prop_id.lower()), "PAR_MIN", 50)  # slow cases: smaller chunks
    workers = min(JOBS, max(1, n // per_worker))
    def robust(chunk):
        """A chunk whose interpreter dies (killed, out of memory, hard timeout) is re-run case by case so that the
        culprit is identified and reported as a failing case instead of taking the whole check down."""
        try:
            return run_impl(prop_id, chunk, scratch, **kw)
        except (RuntimeError, subprocess.TimeoutExpired) as first:
            if len(chunk) == 1:
                return [{"harness_fail": True, "pred_fail": "the implementation process died or hung on this case: %s" % str(first)[-300:]}]
            res = []
            for c in chunk:
                try:
                    res.extend(run_impl(prop_id, [c], scratch, **dict(kw, timeout=min(kw.get("timeout", 3000), 300))))
                except (RuntimeError, subprocess.TimeoutExpired) as ex:
                    res.append({"harness_fail": True, "pred_fail": "the implementation process died or hung on this case: %s" % str(ex)[-300:]})
            return res

    if workers == 1:
        return robust(cases)
    chunks = [cases[i::workers] for i in range(workers)]
    with concurrent.futures.ThreadPoolExecutor(workers) as ex:
        results = list(ex.map(robust, chunks))
    out = [None] * n
    for w, res in enumerate(results):
        for j, o in enumerate(res):
            out[w + j * workers] = o
    return out


CASE_HEADER = """From Coq Require Import ZArith List Bool String.
Import ListNotations.
Open Scope Z_scope.
From PV Require Import Check.Compare.
%s
"""


def coq_eval(prop, terms, scratch, tag, extra_eval=None):
    """Write one case file, run coqc, return (count, [mismatching indices]) or raise."""
    path = os.path.join(scratch, "cases_%s_%s.v" % (prop.ID, tag))
    with open(path, "w") as f:
        f.write(CASE_HEADER % prop.COQ_IMPORTS)
        f.write("Definition cases : list (%s) := [\n" % prop.CASE_TYPE)
        f.write(";\n".join(terms))
        f.write("\n].\n")
        f.write("Eval vm_compute in (List.length cases, mismatches %s cases).\n" % prop.CHECK_FN)
        if extra_eval:
            f.write(extra_eval)
    r = subprocess.run("ulimit -s unlimited 2>/dev/null; exec timeout %d coqc -R %s PV %s" % (prop_timeout(prop), COQ, path),
                       shell=True, capture_output=True, text=True, cwd=scratch)
    out = r.stdout
    m = re.search(r"=\s*\(\s*(\d+)%nat\s*,\s*\[(.*?)\]\s*\)\s*:\s*nat\s*\*\s*list\s+nat", out, flags=re.S)
    if r.returncode != 0 or not m:
        raise RuntimeError("coqc failed on %s:\n%s" % (path, (r.stdout + r.stderr)[-3000:]))
    idx = [int(x) for x in re.findall(r"(\d+)%nat", m.group(2))]
    rest = out[m.end():]
    return int(m.group(1)), idx, rest


def prop_timeout(prop):
    return getattr(prop, "COQC_TIMEOUT", 1200)


def evaluate(prop, cases, obs, scratch, tag="s"):
    """Emit + evaluate all cases in shards; returns sorted list of global mismatching indices."""
    shard = getattr(prop, "SHARD", 300)
    terms = [prop.emit(c, o) for c, o in zip(cases, obs)]
    jobs = []
    for k in range(0, len(terms), shard):
        jobs.append((k, terms[k:k + shard]))
    bad = []

    def work(job):
        k, ts = job
        n, idx, _ = coq_eval(prop, ts, scratch, "%s%05d" % (tag, k))
        if n != len(ts):
            raise RuntimeError("case count mismatch in shard %d" % k)
        return [k + i for i in idx]

    with concurrent.futures.ThreadPoolExecutor(JOBS) as ex:
        for res in ex.map(work, jobs):
            bad.extend(res)
    return sorted(bad)


def _clip(x, limit):
    """Evidence samples are meant to be read: very large inputs / observations are shown by their head only."""
    j = canonical(x)
    return x if len(j) <= limit else {"clipped_to_chars": limit, "total_chars": len(j), "head": j[:limit]}


def canonical(x):
    return json.dumps(x, sort_keys=True, separators=(",", ":"))


def sha(x):
    return hashlib.sha1(canonical(x).encode()).hexdigest()


def fail_signature(prop, case, ob):
    """Why a case fails, coarsely: a smaller candidate is only accepted as a reduction if it fails in the same way (a candidate that
    became an invalid input and is rejected by the constructors 'fails' too, but is a different input)."""
    if hasattr(prop, "failure_signature"):
        return prop.failure_signature(case, ob)
    if isinstance(ob, dict):
        if ob.get("harness_fail"):
            return ("died",)
        if ob.get("pred_fail"):
            return ("pred", re.sub(r"[0-9]+|/\S*|'[^']*'", "#", str(ob["pred_fail"]))[:60])
        return ("disagree", "error" in ob, "refused" in ob)
    if isinstance(ob, list):
        return ("disagree", any(isinstance(x, dict) and "error" in x for x in ob), any(isinstance(x, str) and x.startswith("rejected") for x in ob))
    return ("disagree",)


def shrink(prop, case, scratch, seed, rounds=6, batch=40, sig=None):
    """Greedy structural shrinking: keep a smaller candidate while it still disagrees / fails in the same way."""
    if not hasattr(prop, "shrink"):
        return case
    cur = case
    deadline = time.time() + getattr(prop, "SHRINK_BUDGET_S", 90)
    for _ in range(rounds):
        if time.time() > deadline:
            break
        cands = []
        seen = set()
        for c in prop.shrink(cur):
            h = sha(c)
            if h not in seen:
                seen.add(h)
                cands.append(c)
            if len(cands) >= batch:
                break
        if not cands:
            break
        try:
            obs = run_impl_parallel(prop.ID, cands, scratch, timeout=max(30, int(deadline - time.time()) + 60))
            bad = failing_indices(prop, cands, obs, scratch, tag="shr")
        except Exception:  # a candidate the pipeline cannot process is simply not a reduction
            break
        bad = [i for i in bad if sig is None or fail_signature(prop, cands[i], obs[i]) == sig]
        if not bad:
            break
        cur = cands[bad[0]]
    return cur


def failing_indices(prop, cases, obs, scratch, tag):
    live = [i for i, o in enumerate(obs) if not (isinstance(o, dict) and o.get("harness_fail"))]
    bad = set()
    if getattr(prop, "USES_COQ", True) and live:
        bad = set(live[j] for j in evaluate(prop, [cases[i] for i in live], [obs[i] for i in live], scratch, tag=tag))
    for i, o in enumerate(obs):
        if isinstance(o, dict) and (o.get("pred_fail") or o.get("corr_fail")):
            bad.add(i)
    return sorted(bad)


def load_corpus(prop_id):
    out = []
    d = os.path.join(VERIF, "corpus_min", prop_id)
    if os.path.isdir(d):
        for name in sorted(os.listdir(d)):
            if name.endswith(".json"):
                try:
                    out.append(json.load(open(os.path.join(d, name)))["input"])
                except Exception:  # pylint: disable=broad-except
                    pass
    return out


def load_known():
    p = os.path.join(VERIF, "known_findings.json")
    if not os.path.exists(p):
        return []
    return json.load(open(p)).get("findings", [])


def repo_state():
    try:
        head = subprocess.run(["git", "-C", REPO, "rev-parse", "HEAD"], capture_output=True, text=True).stdout.strip()
        dirty = bool(subprocess.run(["git", "-C", REPO, "status", "--porcelain", "--untracked-files=no"],
                                    capture_output=True, text=True).stdout.strip())
        return head, dirty
    except Exception:
        return "unknown", False


def write_replay(prop, payload):
    d = os.path.join(VERIF, os.environ.get("VERIF_REPLAY_DIR", "replays"), prop.ID)
    os.makedirs(d, exist_ok=True)
    name = sha(payload.get("input", payload))[:16] + ".json"
    path = os.path.join(d, name)
    head, dirty = repo_state()
    payload.update({"property": prop.ID, "repo_head": head, "repo_dirty": dirty,
                    "command": "./check %s --replay %s" % (prop.ID, os.path.relpath(path, VERIF))})
    json.dump(payload, open(path, "w"), indent=1, sort_keys=True)
    return os.path.relpath(path, VERIF)


def main():
    ap = argparse.ArgumentParser()
    ap.add_argument("prop")
    ap.add_argument("--tier", default=os.environ.get("VERIF_TIER", "quick"), choices=["quick", "thorough"])
    ap.add_argument("--replay")
    ap.add_argument("--keep", action="store_true", help="keep the scratch directory (debugging)")
    args = ap.parse_args()
    t0 = time.time()
    seed = int(os.environ.get("VERIF_SEED", "20260925"))
    prop = importlib.import_module("props.%s" % args.prop.lower())
    scratch = tempfile.mkdtemp(prefix="pv_%s_" % prop.ID, dir=os.environ.get("VERIF_TMP", "/var/tmp"))
    rc = 1
    try:
        rc = run(prop, args, seed, scratch, t0)
    finally:
        if not args.keep:
            shutil.rmtree(scratch, ignore_errors=True)
        else:
            log("scratch kept:", scratch)
    sys.exit(rc)


def run(prop, args, seed, scratch, t0):
    tier = args.tier
    violations = []  # (replay path, suffix)
    known_hits = []
    evidence_cov = {}

    # ---- 1. proofs ----
    ok_build, build_log = build_coq()
    theorems, assumptions, ok_props, props_log, checker_cmd = check_props(prop, scratch)
    forb = forbidden_scan()
    allowed = set(getattr(prop, "ALLOWED_AXIOMS", []))
    discharged = 0
    bad_theorems = []
    for th in theorems:
        if not ok_props or th not in assumptions:
            bad_theorems.append(th)
            continue
        ax = [a.split(":")[0].strip() for a in assumptions[th]]
        if all(a in allowed for a in ax):
            discharged += 1
        else:
            bad_theorems.append(th)
    coqchk = None
    if tier == "thorough" and ok_props and not args.replay:
        coqchk = run_coqchk(prop)
        if not coqchk["ok"]:
            bad_theorems.append("coqchk:" + coqchk["summary"][:200])
    proofs_ok = bool(ok_props and not forb and not bad_theorems and theorems)  # ok_build covers unrelated files too: reported, not required
    if not proofs_ok:
        log("PROOF-STEP-FAILED build_ok=%s props_ok=%s forbidden=%s undischarged=%s" % (ok_build, ok_props, forb, bad_theorems))
        if not ok_build:
            log(build_log)
        if not ok_props:
            log(props_log)

    # ---- 2-5. correspondence ----
    rng = random.Random(seed)
    if args.replay:
        rp = json.load(open(os.path.join(VERIF, args.replay) if not os.path.isabs(args.replay) else args.replay))
        cases = [rp["input"]] if "input" in rp else []
        streams = ["replay"] * len(cases)
    else:
        gen_tier = tier if proofs_ok else "thorough"  # a broken obligation turns the run into a search
        cases, streams = prop.generate(rng, gen_tier)
        # minimised inputs that once witnessed a violation under a seeded change (corpus_min/<id>/*.json, written by
        # harness/mkcorpus.py from replay files) run first, whatever the seed; they must agree on an unchanged tree like any other case
        cor = [] if os.environ.get("VERIF_NO_CORPUS") else load_corpus(prop.ID)
        cases = cor + cases
        streams = ["corpus"] * len(cor) + streams
    log("[%s] %d cases generated (%s)" % (prop.ID, len(cases), tier))
    t1 = time.time()
    obs = prop.run_all(cases, scratch, run_impl_parallel) if hasattr(prop, "run_all") else run_impl_parallel(prop.ID, cases, scratch)
    t2 = time.time()
    log("[%s] implementation ran in %.1fs" % (prop.ID, t2 - t1))
    coq_ok = True
    try:
        bad = failing_indices(prop, cases, obs, scratch, tag="m")
    except RuntimeError as e:
        coq_ok = False
        bad = []
        log("MODEL-EVALUATION-FAILED: %s" % e)
    t3 = time.time()
    log("[%s] model evaluated and compared in %.1fs: %d disagreement(s)" % (prop.ID, t3 - t2, len(bad)))

    # ---- 6. verdict ----
    known = [k for k in load_known() if k.get("property") == prop.ID and k.get("status") == "open"]
    reported = 0
    for i in bad:
        kf = prop.known_finding(cases[i], obs[i], known) if hasattr(prop, "known_finding") else None
        if kf:
            known_hits.append((kf, cases[i]))
            continue
        if reported >= 3:
            reported += 1
            continue
        small = cases[i] if args.replay else shrink(prop, cases[i], scratch, seed, sig=fail_signature(prop, cases[i], obs[i]))
        small_obs = run_impl_parallel(prop.ID, [small], scratch)[0]
        model_txt = None
        if hasattr(prop, "model_eval") and not (isinstance(small_obs, dict) and small_obs.get("harness_fail")):
            try:
                _, _, rest = coq_eval(prop, [prop.emit(small, small_obs)], scratch, "rep%d" % i,
                                      extra_eval=prop.model_eval(small, small_obs))
                model_txt = rest.strip()[:4000]
            except Exception as e:  # pylint: disable=broad-except
                model_txt = "model evaluation failed: %s" % e
        # Where the compared observable is finer than what the property states (internal enumeration counts of C16), a
        # disagreement on which the property's own predicate still holds is a broken correspondence, not a failing input.
        suffix, drift = "", False
        if hasattr(prop, "is_property_failure") and not (isinstance(small_obs, dict) and small_obs.get("harness_fail")):
            try:
                drift = not prop.is_property_failure(small, small_obs)
            except Exception:  # pylint: disable=broad-except
                drift = False
        if drift:
            suffix = " no-failing-input-found"
        rp = write_replay(prop, {
            "correspondence_only": ("the implementation no longer matches the model on this input (correspondence %s), but the property's own "
                                    "predicate holds on it: no failing input was found" % getattr(prop, "CHECK_FN", "")) if drift else None,
            "tier": tier, "seed": seed, "case_index": i, "generator_stream": streams[i], "input": small,
            "original_input": cases[i] if small != cases[i] else None,
            "implementation": small_obs, "model": {"value": model_txt, "theorems": getattr(prop, "THEOREMS_NOTE", "")},
            "kind": "disagreement between implementation and proven model" if not (isinstance(small_obs, dict) and small_obs.get("pred_fail")) else "property predicate fails on the implementation",
        })
        if (rp, suffix) not in violations:
            violations.append((rp, suffix))
        reported += 1
    seen_kf = set()
    for kf, c in known_hits:
        if kf not in seen_kf:
            seen_kf.add(kf)
            log("KNOWN-FINDING: property=%s %s" % (prop.ID, kf))
    if (not proofs_ok or not coq_ok) and not violations:
        what = {"broken": bad_theorems or ["build"], "forbidden": forb, "build_ok": ok_build, "props_ok": ok_props, "model_eval_ok": coq_ok,
                "log": (props_log if not ok_props else build_log)[-1500:]}
        rp = write_replay(prop, {"tier": tier, "seed": seed, "kind": "proof obligation or model evaluation no longer checks",
                                 "unchecked": what, "searched_cases": len(cases)})
        violations.append((rp, " no-failing-input-found"))

    # ---- 7. evidence ----
    distinct = {}
    hist = {}
    for c, o in zip(cases, obs):
        if isinstance(o, dict) and o.get("harness_fail"):
            hist["implementation-process-died"] = hist.get("implementation-process-died", 0) + 1
            continue
        for k in (prop.describe(c, o) if hasattr(prop, "describe") else []):
            hist[k] = hist.get(k, 0) + 1
        if prop.nontrivial(c, o):
            distinct[sha(c)] = 1
    samples = []
    for j in sorted(set([0, len(cases) // 3, len(cases) - 1])) if cases else []:
        samples.append({"stream": streams[j], "input": _clip(cases[j], 8000), "implementation": _clip(obs[j], 4000)})
    tb = [
        "Coq 8.16.1 kernel incl. the vm_compute virtual machine (used to evaluate the model on the generated cases); native_compute is not used",
        "axioms per theorem as printed by Print Assumptions on this run: " + json.dumps({k: (v or "Closed under the global context") for k, v in assumptions.items()}),
        "no extraction (no Extract directives); the model is evaluated inside Coq",
    ] + ([coqchk["summary"]] if coqchk else ["coqchk -o is run in the thorough tier only"]) + [
        "hand-written model tied to /repo by this run's correspondence check (sampled, not proven): harness/props/%s.py generators, Gallina literal emitters and Check/*.v comparers" % prop.ID.lower(),
    ] + list(getattr(prop, "TRUSTED", []))
    ev = {
        "property_id": prop.ID, "tier": tier, "seed": seed, "level": "proof",
        "coverage": {
            "obligations": len(theorems), "discharged": discharged,
            "checker_cmd": "cd /verif/coq && " + checker_cmd + "  (after ./setup.sh: coq_makefile + make, full .vo build)",
            "trusted_base": tb,
            "theorems": theorems,
            "evaluations": len(cases), "distinct_nontrivial": len(distinct),
            "rule": getattr(prop, "RULE", ""),
            "samples": samples,
            "traces_validated_against_impl": len(cases) if coq_ok else 0,
            "disagreements_checked": len(bad),
            "input_distribution": hist,
            "known_findings_hit": sorted(seen_kf),
            "forbidden_tokens": forb,
            "timing_s": {"impl": round(t2 - t1, 1), "coq_compare": round(t3 - t2, 1)},
            "explanation": getattr(prop, "EXPLANATION", ""),
        },
        "assumptions": list(getattr(prop, "ASSUMPTIONS", [])),
        "wall_s": round(time.time() - t0, 1),
        "violations": len(violations),
    }
    if not args.replay and not os.environ.get("VERIF_NO_EVIDENCE"):
        os.makedirs(os.path.join(VERIF, "evidence"), exist_ok=True)
        json.dump(ev, open(os.path.join(VERIF, "evidence", "%s.json" % prop.ID), "w"), indent=1)
    for rp, suffix in violations:
        log("VIOLATION property=%s replay=%s%s" % (prop.ID, rp, suffix))
    if violations:
        return 1
    log("OK property=%s tier=%s cases=%d theorems=%d/%d wall=%.0fs" % (prop.ID, tier, len(cases), discharged, len(theorems), time.time() - t0))
    return 0


if __name__ == "__main__":
    main()
