"""Sub-process entry point: runs the *implementation* (pydsdl imported from /repo) on a list of cases."""
import importlib
import json
import os
import sys


def main():
    prop_id, inp, outp = sys.argv[1:4]
    try:  # a runaway case must fail with MemoryError inside this process instead of exhausting the machine
        import resource

        lim = int(os.environ.get("VERIF_RUNNER_MEM", str(6 << 30)))
        resource.setrlimit(resource.RLIMIT_AS, (lim, lim))
    except Exception:  # pylint: disable=broad-except
        pass
    import pydsdl  # noqa

    repo = os.environ.get("VERIF_REPO", "/repo")
    assert os.path.realpath(pydsdl.__file__).startswith(os.path.realpath(repo) + os.sep), (
        "pydsdl was imported from %s, not from %s" % (pydsdl.__file__, repo))
    sys.path.insert(0, os.path.dirname(os.path.abspath(__file__)))
    prop = importlib.import_module("props.%s" % prop_id.lower())
    cases = json.load(open(inp))
    obs = prop.run_impl(cases)
    assert len(obs) == len(cases)
    json.dump(obs, open(outp, "w"))


if __name__ == "__main__":
    main()
