#!/usr/bin/env python
"""Collects the minimised failing inputs of the last confirmation run of every kept seeded change (seeded/*/meta.json names the
replay files) into corpus_min/<property>/<seed>.json. Run after harness/seedtest.py; the corpus is committed, the replays are not.
A corpus case is an ordinary case: it runs first on every run and must agree with the model on an unchanged tree."""
import glob
import json
import os
import sys

VERIF = os.path.dirname(os.path.dirname(os.path.abspath(__file__)))
MAX_BYTES = 150000
n = 0
for meta_path in sorted(glob.glob(os.path.join(VERIF, "seeded", "*", "meta.json")) + glob.glob(os.path.join(VERIF, "seeded", "auto*", "*", "meta.json"))):
    m = json.load(open(meta_path))
    sid = os.path.basename(os.path.dirname(meta_path))
    for prop, v in (m.get("confirmed_by_coordinator", {}).get("checks", {}) or {}).items():
        if v.get("exit") != 1:
            continue
        for line in v.get("verdict", []):
            if not line.startswith("VIOLATION") or "no-failing-input-found" in line:
                continue
            rp = os.path.join(VERIF, line.split("replay=")[1].split()[0])
            if not os.path.exists(rp):
                continue
            r = json.load(open(rp))
            if "input" not in r or len(json.dumps(r["input"])) > MAX_BYTES:
                continue
            d = os.path.join(VERIF, "corpus_min", prop)
            os.makedirs(d, exist_ok=True)
            json.dump({"origin": "seeded/" + sid if "auto" not in meta_path else os.path.relpath(os.path.dirname(meta_path), VERIF),
                       "generator_stream": r.get("generator_stream"), "input": r["input"]}, open(os.path.join(d, sid + ".json"), "w"), sort_keys=True)
            n += 1
            break
print("corpus_min: %d cases" % n)
