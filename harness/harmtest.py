#!/usr/bin/env python
"""Runs the registered checks against a behaviour-preserving change (seeded/harmless/<id>) - in a scratch worktree, never in /repo.
The expectation is the opposite of seedtest.py: every check must still exit 0 (no false alarm).

usage: harmtest.py <dir> [--props C01,C02] [--tier quick] [--suite]
  <dir> holds patch.diff and meta.json.  Without --props the checks are those of every property anchored in a touched file.
"""
import argparse
import json
import os
import re
import subprocess
import sys
import tempfile
import time

VERIF = os.path.dirname(os.path.dirname(os.path.abspath(__file__)))


def sh(cmd, **kw):
    return subprocess.run(cmd, shell=True, capture_output=True, text=True, **kw)


def props_for(patch_text, own):
    touched = set(re.findall(r"^\+\+\+ b/(\S+)", patch_text, flags=re.M))
    out = [own] if own else []
    for line in open(os.path.join(VERIF, "properties.jsonl")):
        p = json.loads(line)
        files = p.get("anchors", {}).get("files", [])
        if any(t.endswith(f) or f.endswith(t) for t in touched for f in files) and p["id"] not in out:
            out.append(p["id"])
    return out


def main():
    ap = argparse.ArgumentParser()
    ap.add_argument("dir")
    ap.add_argument("--props")
    ap.add_argument("--tier", default="quick")
    ap.add_argument("--suite", action="store_true")
    a = ap.parse_args()
    d = os.path.abspath(a.dir)
    meta = json.load(open(os.path.join(d, "meta.json")))
    patch = open(os.path.join(d, "patch.diff")).read()
    props = a.props.split(",") if a.props else props_for(patch, meta.get("property"))
    head = sh("git -C /repo rev-parse HEAD").stdout.strip()
    wt = tempfile.mkdtemp(prefix="pv_harm_", dir=os.environ.get("VERIF_TMP", "/var/tmp"))
    os.rmdir(wt)
    r0 = sh("git -C /repo worktree add -q --detach %s %s" % (wt, head))
    if r0.returncode != 0:
        print(r0.stderr)
        return 2
    res = {"dir": os.path.relpath(d, VERIF), "repo_head": head, "checks": {}}
    try:
        r = sh("git -C %s apply %s/patch.diff" % (wt, d))
        res["patch_applies"] = r.returncode == 0
        if r.returncode != 0:
            res["error"] = r.stderr[-500:]
            print(json.dumps(res, indent=1))
            return 1
        if a.suite:
            r = sh("cd %s && PYTHONPATH=%s /venv/bin/python -m pytest -q -p no:cacheprovider --timeout=900 2>&1 | tail -1" % (wt, wt))
            res["suite_with_patch"] = r.stdout.strip()[-80:]
        for p in props:
            t0 = time.time()
            r = sh("cd %s && VERIF_REPO=%s VERIF_NO_EVIDENCE=1 VERIF_REPLAY_DIR=replays_mut ./check %s --tier %s" % (VERIF, wt, p, a.tier))
            lines = [l for l in r.stdout.splitlines() if l.startswith(("VIOLATION", "OK ", "KNOWN-FINDING"))]
            res["checks"][p] = {"exit": r.returncode, "verdict": lines[:3], "wall_s": round(time.time() - t0)}
    finally:
        sh("git -C /repo worktree remove --force %s" % wt)
    prev = meta.get("confirmed_by_coordinator", {}).get("checks", {}) if isinstance(meta.get("confirmed_by_coordinator"), dict) else {}
    prev.update(res["checks"])
    res["checks"] = prev
    meta["confirmed_by_coordinator"] = res
    json.dump(meta, open(os.path.join(d, "meta.json"), "w"), indent=1)
    print(json.dumps(res, indent=1))
    return 0


if __name__ == "__main__":
    sys.exit(main())
