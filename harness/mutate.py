#!/usr/bin/env python
"""Systematic first-order mutants of the anchored source files, filtered by the pinned test-suite.

usage: mutate.py gen <outdir> [--files f1,f2] [--jobs 8] [--max-per-file N] [--seed S]
  Enumerates textual single-token mutants (comparison / arithmetic / boolean operators, not-removal, integer constants +1,
  True<->False, min<->max, any<->all) of the files the properties are anchored in - outside the embedded `_unittest*` functions,
  assert statements, logging calls and docstrings -, runs the pinned suite (fail-fast) on each in scratch worktrees of /repo, and
  keeps the survivors as <outdir>/<id>/{patch.diff, meta.json}. Nothing is ever written to /repo itself.
The survivors are then run against the registered checks with harness/seedtest.py --no-demo (they have no demo script).
"""
import argparse
import ast
import difflib
import json
import os
import random
import subprocess
import sys
import tempfile
from concurrent.futures import ThreadPoolExecutor

VERIF = os.path.dirname(os.path.dirname(os.path.abspath(__file__)))
REPO = "/repo"

CMP = {ast.Lt: ("<", "<="), ast.LtE: ("<=", "<"), ast.Gt: (">", ">="), ast.GtE: (">=", ">"), ast.Eq: ("==", "!="), ast.NotEq: ("!=", "=="),
       ast.Is: ("is", "is not"), ast.IsNot: ("is not", "is"), ast.In: ("in", "not in"), ast.NotIn: ("not in", "in")}
BIN = {ast.Add: ("+", "-"), ast.Sub: ("-", "+"), ast.Mult: ("*", "//"), ast.FloorDiv: ("//", "*"), ast.Mod: ("%", "//"), ast.Pow: ("**", "*"),
       ast.LShift: ("<<", ">>"), ast.RShift: (">>", "<<"), ast.BitOr: ("|", "&"), ast.BitAnd: ("&", "|"), ast.Div: ("/", "//")}
CALLS = {"min": "max", "max": "min", "any": "all", "all": "any"}


def anchored_files():
    files = {}
    for line in open(os.path.join(VERIF, "properties.jsonl")):
        p = json.loads(line)
        for f in p.get("anchors", {}).get("files", []):
            f = f if f.startswith("pydsdl/") else "pydsdl/" + f
            if f.endswith(".py") and os.path.exists(os.path.join(REPO, f)):
                files.setdefault(f, []).append(p["id"])
    return files


class Finder(ast.NodeVisitor):
    def __init__(self, src):
        self.src = src
        self.lines = src.split("\n")
        self.offs = [0]
        for ln in self.lines:
            self.offs.append(self.offs[-1] + len(ln.encode("utf8")) + 1)
        self.raw = src.encode("utf8")
        self.out = []  # (start_byte, end_byte, replacement, description, line)

    def pos(self, lineno, col):
        return self.offs[lineno - 1] + col

    def span(self, node):
        return self.pos(node.lineno, node.col_offset), self.pos(node.end_lineno, node.end_col_offset)

    def between(self, a_end, b_start, old, new, what, line):
        seg = self.raw[a_end:b_start].decode("utf8")
        i = seg.find(old)
        if i < 0 or seg.count(old) != 1 and old not in ("is", "in"):
            # e.g. "<" inside "<=" cannot occur between operands; give up on ambiguous text
            if i < 0:
                return
        # make sure we matched the operator token and not part of a longer one
        j = a_end + len(seg[:i].encode("utf8"))
        self.out.append((j, j + len(old.encode("utf8")), new, what, line))

    def visit_FunctionDef(self, node):
        if node.name.startswith("_unittest"):
            return
        for d in node.args.defaults + [d for d in node.args.kw_defaults if d is not None]:
            self.visit(d)
        for st in node.body:   # (not the annotations of the arguments and of the result)
            self.visit(st)

    visit_AsyncFunctionDef = visit_FunctionDef

    def visit_arg(self, node):
        return  # annotations are not evaluated

    def visit_AnnAssign(self, node):
        if node.value is not None:
            self.visit(node.value)

    def visit_Assert(self, node):
        return

    def visit_Expr(self, node):
        if isinstance(node.value, ast.Constant) and isinstance(node.value.value, str):
            return  # docstring
        if isinstance(node.value, ast.Call) and isinstance(node.value.func, ast.Attribute) and isinstance(node.value.func.value, ast.Name) \
                and node.value.func.value.id in ("_logger", "logging", "warnings"):
            return
        if isinstance(node.value, ast.Call):
            s, e = self.span(node)
            self.out.append((s, e, "pass", "call statement removed: %s" % self.raw[s:e].decode()[:40].replace("\n", " "), node.lineno))
        self.generic_visit(node)

    def visit_Break(self, node):
        s, e = self.span(node)
        self.out.append((s, e, "pass", "break removed", node.lineno))

    def visit_Continue(self, node):
        s, e = self.span(node)
        self.out.append((s, e, "pass", "continue removed", node.lineno))

    def visit_IfExp(self, node):
        s, e = self.span(node.test)
        self.out.append((s, e, "(not (%s))" % self.raw[s:e].decode(), "conditional expression swapped", node.lineno))
        self.generic_visit(node)

    def visit_Raise(self, node):
        return  # the arguments of raised exceptions are message texts

    def visit_If(self, node):
        s, e = self.span(node.test)
        if all(isinstance(st, ast.Raise) for st in node.body):
            self.out.append((s, e, "False", "guard dropped (if ...: raise)", node.lineno))   # a validation that never fires
        else:
            self.out.append((s, e, "(not (%s))" % self.raw[s:e].decode(), "condition negated", node.lineno))
        self.generic_visit(node)

    def visit_Compare(self, node):
        left = node.left
        for op, right in zip(node.ops, node.comparators):
            if type(op) in CMP:
                old, new = CMP[type(op)]
                self.between(self.span(left)[1], self.span(right)[0], old, new, "%s -> %s" % (old, new), node.lineno)
            left = right
        self.generic_visit(node)

    def visit_BinOp(self, node):
        if type(node.op) in BIN and not (isinstance(node.op, ast.Mod) and isinstance(node.left, ast.Constant) and isinstance(node.left.value, str)):
            old, new = BIN[type(node.op)]
            self.between(self.span(node.left)[1], self.span(node.right)[0], old, new, "%s -> %s" % (old, new), node.lineno)
        self.generic_visit(node)

    def visit_BoolOp(self, node):
        if len(node.values) == 2:
            s, e = self.span(node)
            ls, le = self.span(node.values[0])
            rs, re_ = self.span(node.values[1])
            self.out.append((s, e, "(" + self.raw[ls:le].decode() + ")", "boolean operation: left operand only", node.lineno))
            self.out.append((s, e, "(" + self.raw[rs:re_].decode() + ")", "boolean operation: right operand only", node.lineno))
        old, new = ("and", "or") if isinstance(node.op, ast.And) else ("or", "and")
        for a, b in zip(node.values, node.values[1:]):
            self.between(self.span(a)[1], self.span(b)[0], old, new, "%s -> %s" % (old, new), node.lineno)
        self.generic_visit(node)

    def visit_UnaryOp(self, node):
        if isinstance(node.op, ast.Not):
            s, _ = self.span(node)
            os_, _ = self.span(node.operand)
            self.out.append((s, os_, "", "not removed", node.lineno))
        self.generic_visit(node)

    def visit_Constant(self, node):
        s, e = self.span(node)
        if isinstance(node.value, bool):
            self.out.append((s, e, str(not node.value), "%s -> %s" % (node.value, not node.value), node.lineno))
        elif isinstance(node.value, int) and abs(node.value) < 2 ** 70:
            self.out.append((s, e, "(%s + 1)" % self.raw[s:e].decode(), "%s -> +1" % node.value, node.lineno))

    def visit_Call(self, node):
        if isinstance(node.func, ast.Name) and node.func.id == "sorted" and len(node.args) == 1:
            s, e = self.span(node.func)
            self.out.append((s, e, "list", "sorted -> list%s" % (" (key dropped)" if node.keywords else ""), node.lineno))
            if node.keywords:
                ks, _ = self.span(node.keywords[0].value)
                a_end = self.span(node.args[0])[1]
                _, ce = self.span(node)
                self.out.append((a_end, ce - 1, "", "sorted: keywords dropped", node.lineno))
        if isinstance(node.func, ast.Attribute) and node.func.attr in ("lower", "upper", "strip", "resolve", "copy") and not node.args and not node.keywords:
            vs, ve = self.span(node.func.value)
            _, ce = self.span(node)
            self.out.append((ve, ce, "", ".%s() removed" % node.func.attr, node.lineno))
        if isinstance(node.func, ast.Name) and node.func.id in CALLS:
            s, e = self.span(node.func)
            self.out.append((s, e, CALLS[node.func.id], "%s -> %s" % (node.func.id, CALLS[node.func.id]), node.lineno))
        self.generic_visit(node)


def mutants_of(path):
    src = open(os.path.join(REPO, path), encoding="utf8").read()
    f = Finder(src)
    f.visit(ast.parse(src))
    res = []
    seen = set()
    for s, e, new, what, line in f.out:
        if (s, e, new) in seen:
            continue
        seen.add((s, e, new))
        mutated = (f.raw[:s] + new.encode("utf8") + f.raw[e:]).decode("utf8")
        try:
            ast.parse(mutated)
        except SyntaxError:
            continue
        res.append({"file": path, "line": line, "what": what, "text": mutated, "orig": src})
    return res


def run_suite(wt, timeout=900):
    try:
        r = subprocess.run("cd %s && PYTHONPATH=%s timeout %d /venv/bin/python -m pytest -x -q -p no:cacheprovider --timeout=120 2>&1 | tail -3" % (wt, wt, timeout),
                           shell=True, capture_output=True, text=True, timeout=timeout + 30)
        last = r.stdout.strip().splitlines()[-1] if r.stdout.strip() else ""
        return (" passed" in last and "failed" not in last and "error" not in last), last[-100:]
    except subprocess.TimeoutExpired:
        return False, "timeout"


def main():
    ap = argparse.ArgumentParser()
    ap.add_argument("cmd", choices=["gen", "count"])
    ap.add_argument("outdir", nargs="?")
    ap.add_argument("--files")
    ap.add_argument("--jobs", type=int, default=8)
    ap.add_argument("--max-per-file", type=int, default=10 ** 9)
    ap.add_argument("--seed", type=int, default=0)
    ap.add_argument("--only", help="keep only mutants whose description contains one of these comma-separated words (e.g. 'guard,negated')")
    a = ap.parse_args()
    files = anchored_files()
    if a.files:
        files = {f: files.get(f, []) for f in a.files.split(",")}
    rng = random.Random(a.seed)
    todo = []
    for f in sorted(files):
        ms = mutants_of(f)
        if a.only:
            ms = [m for m in ms if any(w in m["what"] for w in a.only.split(","))]
        rng.shuffle(ms)
        ms = ms[:a.max_per_file]
        print("%s: %d mutants (properties %s)" % (f, len(ms), ",".join(files[f])))
        for m in ms:
            m["props"] = files[f]
        todo += ms
    print("total %d" % len(todo))
    if a.cmd == "count":
        return 0
    os.makedirs(a.outdir, exist_ok=True)
    head = subprocess.run("git -C %s rev-parse HEAD" % REPO, shell=True, capture_output=True, text=True).stdout.strip()
    wts = []
    for i in range(a.jobs):
        wt = tempfile.mkdtemp(prefix="pv_mutw_", dir=os.environ.get("VERIF_TMP", "/var/tmp"))
        os.rmdir(wt)
        subprocess.run("git -C %s worktree add -q --detach %s %s" % (REPO, wt, head), shell=True, check=True)
        wts.append(wt)
    import queue
    pool = queue.Queue()
    for wt in wts:
        pool.put(wt)
    results = []

    def work(idx_m):
        idx, m = idx_m
        wt = pool.get()
        try:
            p = os.path.join(wt, m["file"])
            open(p, "w", encoding="utf8").write(m["text"])
            ok, last = run_suite(wt)
            open(p, "w", encoding="utf8").write(m["orig"])
            return idx, ok, last
        finally:
            pool.put(wt)

    try:
        with ThreadPoolExecutor(max_workers=a.jobs) as ex:
            for idx, ok, last in ex.map(work, list(enumerate(todo))):
                m = todo[idx]
                results.append({"file": m["file"], "line": m["line"], "what": m["what"], "survived": ok, "suite": last})
                if ok:
                    mid = "%s-L%d-%d" % (os.path.basename(m["file"])[:-3].strip("_"), m["line"], idx)
                    d = os.path.join(a.outdir, mid)
                    os.makedirs(d, exist_ok=True)
                    diff = "".join(difflib.unified_diff(m["orig"].splitlines(True), m["text"].splitlines(True), "a/" + m["file"], "b/" + m["file"]))
                    open(os.path.join(d, "patch.diff"), "w").write(diff)
                    json.dump({"property": m["props"][0] if m["props"] else "?", "props": m["props"], "kind": "auto-mutant",
                               "summary": "%s line %d: %s" % (m["file"], m["line"], m["what"]), "suite": last}, open(os.path.join(d, "meta.json"), "w"), indent=1)
                if len(results) % 50 == 0:
                    print("%d/%d done, %d survivors" % (len(results), len(todo), sum(1 for r in results if r["survived"])), flush=True)
    finally:
        for wt in wts:
            subprocess.run("git -C %s worktree remove --force %s" % (REPO, wt), shell=True)
    json.dump(results, open(os.path.join(a.outdir, "results.json"), "w"), indent=1)
    print("done: %d mutants, %d survivors" % (len(results), sum(1 for r in results if r["survived"])))
    return 0


if __name__ == "__main__":
    sys.exit(main())
