#!/usr/bin/env python
"""Confirms a seeded defect and runs the registered check(s) against it - in a scratch worktree, never in /repo.

usage: seedtest.py <seed_dir> [--props C01,C02] [--tier quick] [--no-suite]
  <seed_dir> holds patch.diff, demo.py, meta.json (property id inside).
Prints a JSON summary and updates <seed_dir>/meta.json with what was run.
"""
import argparse
import json
import os
import subprocess
import sys
import time

VERIF = os.path.dirname(os.path.dirname(os.path.abspath(__file__)))
WT = os.environ.get("VERIF_MUT_WT", "/tmp/mut/repo")


def sh(cmd, **kw):
    return subprocess.run(cmd, shell=True, capture_output=True, text=True, **kw)


def main():
    ap = argparse.ArgumentParser()
    ap.add_argument("seed_dir")
    ap.add_argument("--props")
    ap.add_argument("--tier", default="quick")
    ap.add_argument("--no-suite", action="store_true")
    ap.add_argument("--no-demo", action="store_true", help="automatic mutants (harness/mutate.py) come without a demonstration script")
    ap.add_argument("--first-catch", action="store_true", help="stop at the first check that reports a violation")
    a = ap.parse_args()
    d = os.path.abspath(a.seed_dir)
    meta = json.load(open(os.path.join(d, "meta.json")))
    props = (a.props.split(",") if a.props else (meta.get("props") or [meta["property"]]))
    head = sh("git -C /repo rev-parse HEAD").stdout.strip()
    # a private scratch worktree per invocation (several seed tests may run at once); removed at the end
    global WT
    import tempfile
    WT = tempfile.mkdtemp(prefix="pv_mut_", dir=os.environ.get("VERIF_TMP", "/var/tmp"))
    os.rmdir(WT)
    r0 = sh("git -C /repo worktree add -q --detach %s %s" % (WT, head))
    if r0.returncode != 0:
        print(r0.stderr)
        return 2
    res = {"seed": os.path.relpath(d, VERIF), "repo_head": head}
    env = "PYTHONPATH=%s" % WT
    if not a.no_demo:
        r = sh("cd %s && %s /venv/bin/python -B %s/demo.py" % (d, env, d))
        res["demo_on_clean"] = "PASS" if r.returncode == 0 else "FAIL(rc=%d)" % r.returncode
    r = sh("git -C %s apply %s/patch.diff" % (WT, d))
    res["patch_applies"] = r.returncode == 0
    if r.returncode != 0:
        res["error"] = r.stderr[-500:]
        print(json.dumps(res, indent=1))
        sh("git -C /repo worktree remove --force %s" % WT)
        return 1
    try:
        if not a.no_demo:
            r = sh("cd %s && %s /venv/bin/python -B %s/demo.py" % (d, env, d))
            res["demo_with_patch"] = "FAIL" if r.returncode != 0 else "PASS(unexpected)"
        if not a.no_suite:
            r = sh("cd %s && %s /venv/bin/python -m pytest -q -p no:cacheprovider --timeout=900 2>&1 | tail -1" % (WT, env))
            res["suite_with_patch"] = r.stdout.strip()[-80:]
        res["checks"] = {}
        for p in props:
            t0 = time.time()
            r = sh("cd %s && VERIF_REPO=%s VERIF_NO_EVIDENCE=1 VERIF_REPLAY_DIR=replays_mut ./check %s --tier %s" % (VERIF, WT, p, a.tier))
            lines = sorted([l for l in r.stdout.splitlines() if l.startswith(("VIOLATION", "OK ", "KNOWN-FINDING"))], key=lambda l: not l.startswith("VIOLATION"))
            res["checks"][p] = {"exit": r.returncode, "verdict": lines[:3], "wall_s": round(time.time() - t0)}
            if a.first_catch and r.returncode == 1:
                break
    finally:
        sh("git -C /repo worktree remove --force %s" % WT)
    meta["confirmed_by_coordinator"] = res
    json.dump(meta, open(os.path.join(d, "meta.json"), "w"), indent=1)
    print(json.dumps(res, indent=1))
    return 0


if __name__ == "__main__":
    sys.exit(main())
