#!/bin/bash
# Runs every registered quick check under several seeds on the unchanged tree; prints the ones that do not end with OK.
# usage: harness/multiseed.sh "1 2 3" [props...]
cd "$(dirname "$0")/.."
seeds=${1:-"1 2 3"}
shift
props=${@:-$(cat harness/ready.txt)}
for sd in $seeds; do
  for p in $props; do
    out=$(VERIF_SEED=$sd VERIF_NO_EVIDENCE=1 VERIF_REPLAY_DIR=replays_seed ./check $p 2>&1 | tail -4)
    last=$(echo "$out" | tail -1)
    case "$last" in
      OK*) echo "seed=$sd $p ok: $last" ;;
      *) echo "seed=$sd $p NOT-OK"; echo "$out" ;;
    esac
  done
done
