"""Writes seeded/MATRIX.md from the meta.json of every kept seeded defect (last confirmation run recorded by seedtest.py)."""
import glob
import json
import os

VERIF = os.path.dirname(os.path.dirname(os.path.abspath(__file__)))
missed = set()
for line in open(os.path.join(VERIF, "seeded", "initially_missed.txt")):
    if not line.startswith("#"):
        missed.update(line.split())
rows = []
for d in sorted(glob.glob(os.path.join(VERIF, "seeded", "C*"))):
    sid = os.path.basename(d)
    try:
        m = json.load(open(os.path.join(d, "meta.json")))
    except Exception:
        continue
    c = m.get("confirmed_by_coordinator", {})
    verdicts = {p: ("caught" if v.get("exit") == 1 else "MISSED") for p, v in c.get("checks", {}).items()}
    rows.append((sid, m.get("property", "?"), " ".join(str(m.get("summary", "")).split())[:150], " ".join(str(m.get("needs_to_manifest", "")).split())[:150],
                 c.get("demo_on_clean", "?"), c.get("demo_with_patch", "?"), ", ".join("%s: %s" % kv for kv in verdicts.items()) or "not run",
                 "no (generator strengthened afterwards)" if sid in missed else "yes"))
with open(os.path.join(VERIF, "seeded", "MATRIX.md"), "w") as f:
    f.write("# Seeded defects and which check catches them\n\nEach seed was produced by a fresh agent that saw only the property text and a scratch worktree; "
            "`harness/seedtest.py` confirmed: demo PASS on the clean tree, demo FAIL with the patch, existing suite still 405 passed (first confirmation), and ran the quick check with "
            "`VERIF_REPO` pointing at the patched scratch worktree.\n\n")
    f.write("| seed | property | change | needs to manifest | demo clean / patched | quick check verdict (last run) | caught when first tried |\n|---|---|---|---|---|---|---|\n")
    for r in rows:
        f.write("| %s | %s | %s | %s | %s / %s | %s | %s |\n" % (r[0], r[1], r[2].replace("|", "/"), r[3].replace("|", "/"), r[4], r[5], r[6], r[7]))
    n = len(rows)
    caught = sum(1 for r in rows if "caught" in r[6] and "MISSED" not in r[6])
    f.write("\n%d seeds kept; %d caught by the current quick checks; %d of them were missed when first tried.\n" % (n, caught, sum(1 for r in rows if r[7].startswith("no"))))
    # behaviour-preserving changes (the opposite expectation: every check must stay quiet)
    hrows = []
    for d in sorted(glob.glob(os.path.join(VERIF, "seeded", "harmless", "C*"))):
        try:
            m = json.load(open(os.path.join(d, "meta.json")))
        except Exception:
            continue
        c = m.get("confirmed_by_coordinator", {})
        verdicts = {p: ("quiet" if v.get("exit") == 0 else "ALARM") for p, v in c.get("checks", {}).items()}
        hrows.append((os.path.basename(d), " ".join(str(m.get("summary", "")).split())[:170].replace("|", "/"),
                      ", ".join("%s: %s" % kv for kv in verdicts.items()) or "not run"))
    if hrows:
        f.write("\n# Behaviour-preserving changes and which checks were run against them\n\nProduced by fresh agents that saw only the property text "
                "(refactors, private renames and representation changes, correct caching, reworded diagnostics); each keeps the suite at 405 passed. "
                "`harness/harmtest.py` ran every check whose property is anchored in a touched file; the expected verdict is exit 0.\n\n")
        f.write("| change | what | quick checks run (last run) |\n|---|---|---|\n")
        for r in hrows:
            f.write("| %s | %s | %s |\n" % r)
        f.write("\n%d changes; %d with every check quiet.\n" % (len(hrows), sum(1 for r in hrows if "ALARM" not in r[2] and r[2] != "not run")))
print("matrix: %d seeds" % len(rows))
