"""Gallina literal emitters (everything inside Open Scope Z_scope)."""


def z(n):
    n = int(n)
    return str(n) if n >= 0 else "(%d)" % n


def nat(n):
    return "%d%%nat" % int(n)


def lst(items):
    return "[" + "; ".join(items) + "]"


def zlist(ns):
    return lst([z(n) for n in ns])


def b(v):
    return "true" if v else "false"


def opt(s):
    return "None" if s is None else "(Some %s)" % s


def codepoints(s):
    """Strings travel as lists of Unicode code points - no Coq string escaping rules are trusted."""
    return zlist([ord(ch) for ch in s])


def pair(a, b_):
    return "(%s, %s)" % (a, b_)
