"""Run-time helpers for the implementation side (imported by property modules inside the runner process)."""
import signal


class CaseTimeout(BaseException):
    """Raised by the alarm; BaseException so that `except Exception` inside the library cannot swallow it."""


def _on_alarm(_sig, _frm):
    raise CaseTimeout()


def with_alarm(seconds, fn, *args):
    """Runs fn(*args); raises CaseTimeout if it does not return within `seconds` (wall clock).
    The ceilings used by the property modules are >= 50x the slowest case measured on the unchanged tree, so that only a
    change of complexity class - not machine load - can trip them."""
    old = signal.signal(signal.SIGALRM, _on_alarm)
    signal.alarm(int(seconds))
    try:
        return fn(*args)
    finally:
        signal.alarm(0)
        signal.signal(signal.SIGALRM, old)
