"""Run-time helpers for the implementation side (imported by property modules inside the runner process)."""
import signal


class CaseTimeout(BaseException):
    """Raised by the alarm; BaseException so that `except Exception` inside the library cannot swallow it."""


def _on_alarm(_sig, _frm):
    raise CaseTimeout()


def arm(seconds):
    """Starts the per-case timer: `seconds` of CPU time of this process (ITIMER_PROF, so machine load cannot trip it), with a wall
    clock backstop of 20x that for a case that blocks without using the processor."""
    signal.signal(signal.SIGPROF, _on_alarm)
    signal.signal(signal.SIGALRM, _on_alarm)
    signal.setitimer(signal.ITIMER_PROF, float(seconds))
    signal.alarm(int(seconds * 20))


def disarm():
    signal.setitimer(signal.ITIMER_PROF, 0)
    signal.alarm(0)


def with_alarm(seconds, fn, *args):
    """Runs fn(*args); raises CaseTimeout if it does not return within `seconds` of CPU time (see arm()).
    The ceilings used by the property modules are >= 50x the slowest case measured on the unchanged tree, so that only a
    change of complexity class - not machine load - can trip them."""
    arm(seconds)
    try:
        return fn(*args)
    finally:
        disarm()
