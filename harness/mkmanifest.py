"""Regenerates MANIFEST.json from the property modules that exist (keeps the manifest valid at all times)."""
import importlib
import json
import os
import sys

HERE = os.path.dirname(os.path.abspath(__file__))
VERIF = os.path.dirname(HERE)
sys.path.insert(0, HERE)
BASE = json.load(open("/root/.vp/BASELINE.json"))["cmd"] if os.path.exists("/root/.vp/BASELINE.json") else "cd /repo && /venv/bin/python -m pytest -q"
props = [json.loads(l) for l in open(os.path.join(VERIF, "properties.jsonl"))]
READY = set(open(os.path.join(HERE, "ready.txt")).read().split())  # checks the coordinator has verified end to end
checks, na = [], []
for p in props:
    pid = p["id"]
    try:
        m = importlib.import_module("props.%s" % pid.lower())
        _ = (m.LEVEL_TEXT, m.LEVEL_NOTE, m.TECHNIQUE, m.generate, m.run_impl, m.emit)
        if not os.path.exists(os.path.join(VERIF, "coq", m.PROPS_FILE)) or pid not in READY:
            raise AttributeError("not ready")
    except (ModuleNotFoundError, AttributeError, SyntaxError, ImportError):
        na.append({"property_id": pid, "reason": "check not built yet (planned: Coq model + theorems + correspondence, see DESIGN.md section 6)"})
        continue
    checks.append({
        "property_id": pid,
        "quick_cmd": "./check %s --tier quick" % pid,
        "thorough_cmd": "./check %s --tier thorough" % pid,
        "evidence_file": "evidence/%s.json" % pid,
        "replay_cmd_template": "./check %s --replay {path}" % pid,
        "engine": "coq-model+correspondence",
        "level_claimed": {"category": "proof", "text": m.LEVEL_TEXT, "design_ref": "DESIGN.md section 6, %s" % pid},
        "level_note": m.LEVEL_NOTE,
        "technique": m.TECHNIQUE,
    })
man = {
    "version": 1,
    "setup_cmd": "./setup.sh",
    "hooks": {
        "guard": "PYDSDL_VERIF",
        "enable": "no source hooks: instrumentation is applied by the runner process (monkey-patching); PYDSDL_VERIF=1 is set for the implementation sub-process but nothing in /repo reads it",
        "baseline_off_cmd": BASE.replace(" --junitxml=<file>", ""),
        "source_commits": [],
        "add_only": True,
    },
    "engines": [{"name": "coq-model+correspondence", "path": "harness/check.py",
                 "serves_properties": [c["property_id"] for c in checks],
                 "kind_free_text": "Coq 8.16.1 theorems about a hand-written Gallina model (coq/), tied to /repo on every run by a differential correspondence check whose model side is evaluated inside Coq with vm_compute"}],
    "checks": checks,
    "not_applicable": na,
    "notes": "See DESIGN.md. setup_cmd builds the whole Coq development (full .vo). Every check re-compiles its Props/Cxx.v afresh and reads Print Assumptions.",
}
json.dump(man, open(os.path.join(VERIF, "MANIFEST.json"), "w"), indent=1)
print("manifest: %d checks, %d not applicable" % (len(checks), len(na)))
